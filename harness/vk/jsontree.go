package vk

import (
	"bytes"
	"encoding/json"
	"fmt"
	"io"
)

// Node is an ordered JSON tree: duplicate keys and member order are preserved.
type Node struct {
	Kind    byte // 'n' null, 'b' bool, '#' number, 's' string, 'a' array, 'o' object
	Bool    bool
	Num     string // exact number text
	Str     string
	Items   []*Node
	Members []Member
}

type Member struct {
	Key string
	Val *Node
}

// DecodeOrdered decodes exactly one JSON value with encoding/json's token decoder (UseNumber),
// rejecting trailing non-whitespace data.
func DecodeOrdered(b []byte) (*Node, error) {
	dec := json.NewDecoder(bytes.NewReader(b))
	dec.UseNumber()
	n, err := decodeValue(dec)
	if err != nil {
		return nil, err
	}
	if _, err := dec.Token(); err != io.EOF {
		return nil, fmt.Errorf("trailing data after the JSON value (%v)", err)
	}
	return n, nil
}

func decodeValue(dec *json.Decoder) (*Node, error) {
	tok, err := dec.Token()
	if err != nil {
		return nil, err
	}
	return decodeFrom(dec, tok)
}

func decodeFrom(dec *json.Decoder, tok json.Token) (*Node, error) {
	switch v := tok.(type) {
	case nil:
		return &Node{Kind: 'n'}, nil
	case bool:
		return &Node{Kind: 'b', Bool: v}, nil
	case json.Number:
		return &Node{Kind: '#', Num: string(v)}, nil
	case string:
		return &Node{Kind: 's', Str: v}, nil
	case json.Delim:
		switch v {
		case '[':
			n := &Node{Kind: 'a'}
			for dec.More() {
				c, err := decodeValue(dec)
				if err != nil {
					return nil, err
				}
				n.Items = append(n.Items, c)
			}
			if _, err := dec.Token(); err != nil {
				return nil, err
			}
			return n, nil
		case '{':
			n := &Node{Kind: 'o'}
			for dec.More() {
				kt, err := dec.Token()
				if err != nil {
					return nil, err
				}
				k, ok := kt.(string)
				if !ok {
					return nil, fmt.Errorf("object key is not a string: %v", kt)
				}
				c, err := decodeValue(dec)
				if err != nil {
					return nil, err
				}
				n.Members = append(n.Members, Member{k, c})
			}
			if _, err := dec.Token(); err != nil {
				return nil, err
			}
			return n, nil
		}
	}
	return nil, fmt.Errorf("unexpected token %v", tok)
}

// String renders the node compactly for failure messages.
func (n *Node) String() string {
	if n == nil {
		return "<nil>"
	}
	switch n.Kind {
	case 'n':
		return "null"
	case 'b':
		return fmt.Sprint(n.Bool)
	case '#':
		return n.Num
	case 's':
		return fmt.Sprintf("%q", n.Str)
	case 'a':
		var b bytes.Buffer
		b.WriteByte('[')
		for i, c := range n.Items {
			if i > 0 {
				b.WriteByte(',')
			}
			b.WriteString(c.String())
		}
		b.WriteByte(']')
		return b.String()
	default:
		var b bytes.Buffer
		b.WriteByte('{')
		for i, m := range n.Members {
			if i > 0 {
				b.WriteByte(',')
			}
			fmt.Fprintf(&b, "%q:%s", m.Key, m.Val.String())
		}
		b.WriteByte('}')
		return b.String()
	}
}

// ---------------------------------------------------------------- strict RFC 8259 validator

type jscan struct {
	b []byte
	i int
}

func (s *jscan) ws() {
	for s.i < len(s.b) {
		switch s.b[s.i] {
		case ' ', '\t', '\r', '\n':
			s.i++
		default:
			return
		}
	}
}

func (s *jscan) errf(format string, a ...any) error {
	return fmt.Errorf("offset %d: %s", s.i, fmt.Sprintf(format, a...))
}

// ValidateJSON checks that b is exactly one RFC 8259 JSON text (own scanner, strict: no raw
// control characters or ill-formed UTF-8 in strings, no leading zeros, no bare NaN/Infinity).
func ValidateJSON(b []byte) error {
	s := &jscan{b: b}
	s.ws()
	if err := s.value(0); err != nil {
		return err
	}
	s.ws()
	if s.i != len(b) {
		return s.errf("trailing data %q", trunc(b[s.i:]))
	}
	return nil
}

func trunc(b []byte) []byte {
	if len(b) > 40 {
		return b[:40]
	}
	return b
}

func (s *jscan) value(depth int) error {
	if depth > 10000 {
		return s.errf("nesting too deep")
	}
	if s.i >= len(s.b) {
		return s.errf("unexpected end")
	}
	switch c := s.b[s.i]; {
	case c == '{':
		s.i++
		s.ws()
		if s.i < len(s.b) && s.b[s.i] == '}' {
			s.i++
			return nil
		}
		for {
			s.ws()
			if err := s.str(); err != nil {
				return err
			}
			s.ws()
			if s.i >= len(s.b) || s.b[s.i] != ':' {
				return s.errf("expected ':'")
			}
			s.i++
			s.ws()
			if err := s.value(depth + 1); err != nil {
				return err
			}
			s.ws()
			if s.i >= len(s.b) {
				return s.errf("unterminated object")
			}
			if s.b[s.i] == ',' {
				s.i++
				continue
			}
			if s.b[s.i] == '}' {
				s.i++
				return nil
			}
			return s.errf("expected ',' or '}' but found %q", s.b[s.i])
		}
	case c == '[':
		s.i++
		s.ws()
		if s.i < len(s.b) && s.b[s.i] == ']' {
			s.i++
			return nil
		}
		for {
			s.ws()
			if err := s.value(depth + 1); err != nil {
				return err
			}
			s.ws()
			if s.i >= len(s.b) {
				return s.errf("unterminated array")
			}
			if s.b[s.i] == ',' {
				s.i++
				continue
			}
			if s.b[s.i] == ']' {
				s.i++
				return nil
			}
			return s.errf("expected ',' or ']' but found %q", s.b[s.i])
		}
	case c == '"':
		return s.str()
	case c == '-' || (c >= '0' && c <= '9'):
		return s.number()
	default:
		for _, lit := range []string{"true", "false", "null"} {
			if bytes.HasPrefix(s.b[s.i:], []byte(lit)) {
				s.i += len(lit)
				return nil
			}
		}
		return s.errf("unexpected %q", trunc(s.b[s.i:]))
	}
}

func (s *jscan) str() error {
	if s.i >= len(s.b) || s.b[s.i] != '"' {
		return s.errf("expected string")
	}
	start := s.i + 1
	j := start
	for j < len(s.b) {
		if s.b[j] == '\\' {
			j += 2
			continue
		}
		if s.b[j] == '"' {
			break
		}
		j++
	}
	if j >= len(s.b) {
		return s.errf("unterminated string")
	}
	if _, code := DecodeJSONStringBody(nil, s.b[start:j]); code != StrOK {
		return s.errf("bad string literal: %s", StrErrName(code))
	}
	s.i = j + 1
	return nil
}

func (s *jscan) number() error {
	digits := func() int {
		n := 0
		for s.i < len(s.b) && s.b[s.i] >= '0' && s.b[s.i] <= '9' {
			s.i++
			n++
		}
		return n
	}
	if s.b[s.i] == '-' {
		s.i++
	}
	if s.i >= len(s.b) {
		return s.errf("bad number")
	}
	if s.b[s.i] == '0' {
		s.i++
	} else if digits() == 0 {
		return s.errf("bad number")
	}
	if s.i < len(s.b) && s.b[s.i] == '.' {
		s.i++
		if digits() == 0 {
			return s.errf("bad fraction")
		}
	}
	if s.i < len(s.b) && (s.b[s.i] == 'e' || s.b[s.i] == 'E') {
		s.i++
		if s.i < len(s.b) && (s.b[s.i] == '+' || s.b[s.i] == '-') {
			s.i++
		}
		if digits() == 0 {
			return s.errf("bad exponent")
		}
	}
	if s.i < len(s.b) {
		switch c := s.b[s.i]; {
		case c >= '0' && c <= '9', c == '.', c == 'e', c == 'E', c == '+', c == '-':
			return s.errf("bad number (leading zero or stray character)")
		}
	}
	return nil
}

// RawMember is one top-level member of a JSON object as raw tokens.
type RawMember struct {
	Key string // raw key token including quotes
	Val string // raw value token
}

// SplitTopLevel splits a (valid, compact or not) JSON object into its raw member tokens.
func SplitTopLevel(b []byte) ([]RawMember, error) {
	s := &jscan{b: b}
	s.ws()
	if s.i >= len(b) || b[s.i] != '{' {
		return nil, s.errf("not an object")
	}
	s.i++
	var out []RawMember
	s.ws()
	if s.i < len(b) && b[s.i] == '}' {
		return out, nil
	}
	for {
		s.ws()
		k0 := s.i
		if err := s.str(); err != nil {
			return nil, err
		}
		key := string(b[k0:s.i])
		s.ws()
		if s.i >= len(b) || b[s.i] != ':' {
			return nil, s.errf("expected ':'")
		}
		s.i++
		s.ws()
		v0 := s.i
		if err := s.value(1); err != nil {
			return nil, err
		}
		out = append(out, RawMember{key, string(b[v0:s.i])})
		s.ws()
		if s.i >= len(b) {
			return nil, s.errf("unterminated")
		}
		if b[s.i] == ',' {
			s.i++
			continue
		}
		if b[s.i] == '}' {
			return out, nil
		}
		return nil, s.errf("expected ',' or '}'")
	}
}
