#!/usr/bin/env python3
"""Print the DESIGN.md sensitivity rows (markdown) for a set of seeded changes.

  ./seedtable.py 5 6        rows for seeded/<Cxx>-5 and <Cxx>-6, outcome taken from seeded/RESULTS_quick.json
"""
import json, os, sys, glob

ROOT = os.path.dirname(os.path.abspath(__file__))

# what the first-attempt survivors needed (the check was strengthened, never loosened)
SURVIVED_FIRST = {
    "C03-5": "only the Logger/AsyncLogger paths were generated; logger kinds Console/File/RollingFile added as paths",
    "C03-6": "every event had its own millisecond; now a few milliseconds are shared by events of several goroutines",
    "C04-5": "all appender references had the full level range; a reference restricted to [ERROR,MAX) plus mixed raw writes added to the async model",
    "C06-5": "histories had events only; raw writes are now mixed into the single-stepped Discard histories",
    "C06-6": "the RollingFile async policy scenario logged events only; raw writes from the same producer and a per-file order check added",
    "C14-6": "one scan per appender value; a second population and scan of the same appender added",
    "C15-5": "registered top-level properties were always spelled canonically; they now take part in the key-spelling renderings, with a bad-value fault",
    "C15-6": "the unknown-type fault was injected into appenders, loggers and layouts only; appenderRef elements added",
    "C18-5": "tag identity was compared within one configuration epoch; Refresh/Destroy cycles between registrations added (TestC18_Lifecycle)",
    "C19-5": "boundary decisions were taken by one goroutine at a time; spinning goroutines that reach every boundary together plus a 'held for the rest of the outage' oracle added (TestC19_BoundaryRace)",
    "C19-6": "nothing looked at which files exist after restoration; a file named for a boundary that fell into the outage is now a violation",
    "C20-5": "children finished within one interval; rolling kinds now also run with the calls straddling a real rotation boundary (crash at the end)",
    "C20-6": "the logger-level-layout path (appender receives bytes) had no crash-point kind; three such kinds added",
    # round 4
    "C01-7": "every reference named its own appender; two references of one logger may now name the same appender with disjoint explicit ranges (expected = union)",
    "C01-8": "no bound above MAX was generated at all (carve-out made for the rolling-file logger); now only that logger kind is carved out, elsewhere explicit upper bounds may be user levels above MAX",
    "C02-7": "tag lists were rendered with blanks and commas only; entries are now also separated over lines (CR/LF, tabs)",
    "C02-8": "loggers had no level attribute, so 'served by' was always observable as a delivery; loggers with restricted or empty ranges added - their tags must reach nobody",
    "C03-7": "no context fields; the FieldsFromContext hook now hands every event one shared slice with spare capacity",
    "C03-8": "one sink per file; path 'two loggers, two File appenders, one file' added",
    "C04-7": "every raw write carried an id; raw writes with an empty payload (nil / zero-length) added as items of their own",
    "C04-8": "only levels registered before Start were used; events at a user level registered while the logger runs added",
    "C05-7": "as C04-7: an empty raw write before Stop",
    "C05-8": "appender and logger names never coincided; the first file-owning appender may now be named like its logger",
    "C06-7": "the C06 histories had no below-level events (C04's had); added",
    "C06-8": "the concurrent DiscardOldest run only checked order; what survives of one producer must be a gap-free run ending with its last item",
    "C07-7": "level codes were unique; distinct levels sharing a code (alias of WARN, zero Level next to NONE) and level names needing escapes added",
    "C07-8": "context-field slices were fresh per event; an earlier event now gets a prefix of the slice the checked event receives in full",
    "C08-7": "as C07-8 for the text layout",
    "C08-8": "as C07-7 for the text layout",
    "C09-7": "the layouts test used a fixed header; file path, tag, context string and level name are now hostile strings, the file:line clipped at several widths",
    "C09-8": "as C09-7 (level name)",
    "C10-8": "hook times were all distinct instants in UTC; consecutive events now often get the same instant in different zones",
    "C11-7": "about 500 call sites per process; now >1000 (generator -n 900) and a sweep over all of them, twice, in fast mode",
    "C11-8": "every Refresh spelled out both caller options; a rejected Refresh with an ill-typed option followed by a Refresh that does not mention them added",
    "C12-8": "missing names were plain names; names that look like configuration paths below a configured logger, appender names and other spellings added (one child process per name)",
    "C13-7": "restarts happened at generated offsets, never while a boundary passed; many appenders now restart in a tight loop across the boundary",
    "C13-8": "writers idle across a whole interval never resumed in the same instant; spinning writers with long bursts added",
    "C14-7": "every scan found its directory; a scan while the directory is away now precedes the judged one",
    "C14-8": "only appenders were scanned; a Refresh-built RollingFile logger (separate=false) with foreign name.wf.<ts> files added to the real-rotation runs",
    "C15-7": "element lists had 1-3 entries; lists with two-digit indices added",
    "C15-8": "the dangling reference was an unrelated name; names that only resemble an appender's name added",
    "C16-8": "only RegisterTag was tried while live; the app/biz/rpc helpers are entry points too",
    "C17-7": "each case parsed variants of one expression that differ between tokens only; a variant with one more space inside a string literal added",
    "C17-8": "well-formed and malformed inputs were parsed in separate tests; a malformed input (defect inside a nested block) now precedes a third of the exact cases",
    "C18-7": "the lifecycle configurations listed no tags; they now name unregistered and ill-formed tags",
    "C19-7": "the directory was only renamed away; a regular file may now sit at its path meanwhile",
    "C19-8": "one appender per directory; a companion appender with a longer interval sharing the failed boundary added",
    "C20-7": "as C03-8: two loggers with their own File appenders on one file",
    "C20-8": "appenders were started once; kinds with an appender value stopped and started again added",
    # round 5 (a note is printed only for the changes that survived the first attempt, see ROUND5_first_attempt.jsonl)
    "C01-9": "events were logged one after the other; TestC01_Concurrent logs the list from 2-8 goroutines at once",
    "C01-10": "asynchronous loggers ran with Block only; now also Discard after the buffer has overflowed once",
    "C02-9": "",
    "C02-10": "no logger name was also a handle name; lg0 is now requested through GetLogger",
    "C03-9": "payloads were letters only; a field with control characters that differ per goroutine added",
    "C03-10": "lines went up to 4x the buffer-reuse cap (40 KB); lines of 70-200 KB added",
    "C04-9": "logger values were used for one life; a Start/Stop cycle may now precede the history",
    "C05-9": "targets never refused a write; file appender on /dev/full with descriptor accounting added (TestC05_FailingTarget)",
    "C05-10": "as C04-9 in the C05 cases",
    "C06-9": "no log call was ever issued while Stop was in progress; TestC06_CallDuringStop (appender stalled, buffer with room)",
    "C06-10": "raw writes were small; 20-30 KB raw writes (beyond the buffer-reuse cap) added as items and as the call during Stop",
    "C07-9": "the reflect zoo had no json.RawMessage; RawMessage values with insignificant white space and line feeds added",
    "C07-10": "end to end always ran with enableCaller=true; a quarter of the cases now run with it off",
    "C08-9": "context strings were random printable text; strings containing or ending in the separator added",
    "C08-10": "file paths were ASCII; paths with multi-byte characters added",
    "C09-9": "no generator could form a six-byte backslash-u-hex pattern; an escape-lookalike alphabet is enumerated and such tokens are in the dictionary",
    "C09-10": "escaping was checked one string at a time; TestC09_ConcurrentLayouts formats different hostile strings from 2-16 goroutines through shared layouts",
    "C10-9": "the context-fields hook returned fresh exact-size slices and the concurrent test looked at recorded events only; now a shared slice with spare capacity and the formatted lines are checked",
    "C10-10": "the timestamp hook never returned the zero time",
    "C11-9": "every Record skip named an existing frame; shape skipbeyond added",
    "C11-10": "rejected Refreshes were rejected because of the caller option itself; now also for another reason while carrying opposite, well-typed options",
    "C12-9": "strange names did not include tag literals of configured loggers",
    "C12-10": "as C04-9: TestC12_Restart gives a logger value several lives",
    "C13-9": "all writes went through Write; a third now go through Append with event times that are not the wall clock",
    "C13-10": "the process ran in UTC; it now runs in a non-UTC local zone chosen by the seed",
    "C14-9": "the process ran in UTC; it now lives in a synthetic zone that changed its offset three days ago",
    "C14-10": "FileDir was always a clean absolute path; trailing/doubled slashes, /./ and ./relative spellings added",
    "C15-9": "names were ASCII; recorder names with letters outside ASCII added",
    "C15-10": "only the built-in rotation names were used; application-registered names with upper-case letters added",
    "C16-9": "root was never requested as a handle",
    "C16-10": "killed by the C05 check (Stop/Destroy with a full buffer under every policy); the C16 state machine has no stalled appender - listed under also_checks",
    "C18-10": "helper parts had one segment; sub types with two segments and with the helper's own main type as first segment added",
    "C19-9": "the rolling appender was never behind a saturated asynchronous logger; time-lines through an async Block root logger with flooders added",
    "C19-10": "the interval was always 1 s; 3 s time-lines with a sparse writer added",
    "C20-9": "no raw writes through a handle; rawhandle kinds with and without trailing line break added",
    "C20-10": "every field could be encoded; calls with a field whose encoding panics added (if the call returns, its line is due)",
    # round 6 (see ROUND6_first_attempt.jsonl)
    "C01-11": "the logger with several references was never the root logger; the generated logger may now be configured under the name root (sync or async)",
    "C02-12": "root was always a synchronous Logger; it may now be an AsyncLogger, and a logging call that never returns is a verdict (watchdog)",
    "C03-11": "killed by the C19 check (outage over several boundaries, then restoration); the C03 paths have no failing rotation - listed under also_checks",
    "C04-11": "references of directly built loggers were listed in ascending order; the order is now generated",
    "C04-12": "no event was ever submitted at level NONE (code 0); kind ev0 added to the histories",
    "C06-11": "events in the Discard histories were INFO/WARN only; PANIC-level events (kind evP) arriving at a full buffer added",
    "C07-12": "the reflect zoo had no named scalar types with their own MarshalJSON/MarshalText; enum and masked-string types added",
    "C08-12": "killed by the C03 check (events of several goroutines sharing milliseconds through one layout); listed under also_checks",
    "C09-12": "hostile characters only ever appeared in the first key written; later keys are now hostile too",
    "C10-11": "context fields and call fields never shared a key; the context hook may now return a field with the key id",
    "C10-12": "killed by the C04 check (Block histories that run the buffer full, every accepted event delivered once with its own content); listed under also_checks",
    "C11-12": "every site was called with a synchronous logger behind the tag; TestC11_Saturated calls them while an asynchronous logger's buffer is full, under each policy",
    "C12-11": "backlogs at Destroy drained within milliseconds; TestC12_Restart now has one backlog per run that takes longer than 3 s to drain",
    "C12-12": "handles were written to with Write only; odd writers now go through io.WriteString from several goroutines",
    "C13-11": "zone offsets were constant during a run; TestC13_ZoneChange lives through a change of the local zone's UTC offset every 6 s",
    "C13-12": "maximum ages were 1000 h; now 1-3 h in a zone west of UTC (one fixed zone per step instead of one by derived seed, which left the west zone out at most seeds)",
    "C14-11": "the configured directory was never a symbolic link; spelling 5 added",
    "C15-11": "placeholders were never padded with white space; padded forms added",
    "C16-11": "start failures were plugin-level faults; I/O start failures of an asynchronous RollingFile logger (missing directory) added as invalid-late variants",
    "C16-12": "the root logger of the second configuration was synchronous; it may now be asynchronous",
    "C17-11": "NOT killed by quick: results stay correct, only the cost of deep nesting becomes cubic (64 KiB nested 13000 deep: about an hour). `./check C17 thorough` ends INCONCLUSIVE (child still running after 600 s), never OK; see limits",
    "C18-11": "a refused registration was only required to panic; the lifecycle machine now also requires that it leaves no tag behind (GetAllTags)",
    "C18-12": "every rejected Refresh was followed by Destroy; early-invalid Refreshes (nothing started) are now followed by registrations, which must still be possible",
    "C19-11": "killed by the C16 check (I/O start failure, then a write through a handle before Destroy); listed under also_checks",
    "C19-12": "the mid-interval rule was checked for 1 s intervals; with 3 s intervals a failed creation must not be retried within the interval (deterministic sparse3 write), and a file named for a mid-interval second is a violation",
    "C20-11": "one appender per logger in the crash kinds; kind console+file (two references with the default range) added",
    "C20-12": "nothing was logged after Destroy in a child; kind default-after-destroy added (the built-in console logger serves again)",
    # round 7 (see ROUND7_first_attempt.jsonl; n=13 plain slips - 19 of 20 died at once -, n=14 subtle ones)
    "C02-13": "logger names were lg0..lg3, all sorting before root; names on both sides of root added (zeta, a1, rootx, ro, svc)",
    "C02-14": "tag lists were always written literally; a quarter now sit in a top-level property and the attribute is a ${...} placeholder (also for the faulty lists)",
    "C03-14": "killed by the C11 check after its concurrent step got a cold start (all goroutines reach each fresh site in the same instant); listed under also_checks",
    "C04-14": "killed by the C05 check (rolling-file logger, async, backlog at Destroy); listed under also_checks",
    "C05-14": "no backlog took longer than a second to drain; TestC05_SlowDrain: 9 events at 400-500 ms each, direct and Refresh-built",
    "C06-14": "the rolling-file async scenario ran the two discard policies and the default; explicit Block added (all items must arrive once the stalled worker is released)",
    "C07-14": "killed by the C03 check (several goroutines through one layout instance); listed under also_checks",
    "C09-14": "killed by the C07 and C08 checks once the hostile strings contained escaped text (six-character \\u0026 etc.) - the change is on the Reflect path; listed under also_checks",
    "C10-14": "every appender reference took whatever the logger let through; references with a higher floor than the logger's range added (enabled for the logger: the generator runs once)",
    "C13-14": "killed by the C19 check (failed creation, then the next boundary: the call hangs); listed under also_checks",
    "C14-14": "the rotation interval was always one hour; intervals from 10 minutes to a week are generated",
    "C15-14": "all tagged fields sat in exported structs; part of the probe plugin's fields now sit in an embedded package-private base",
    "C17-14": "Parse was only ever called by one goroutine; TestC17_Concurrent parses generated batches from 2-16 goroutines",
    "C18-14": "helper parts were well-formed segments; parts with misplaced or too many underscores added",
    "C19-14": "killed by the C14 check (a file with an old name and a fresh modification time must survive); listed under also_checks",
    "C20-14": "no write ever failed before the judged calls; file kinds now may begin with one write that fails for a transient reason (file-size limit lowered for one call)",
    # round 8 (see ROUND8_first_attempt.jsonl; n=15 plain slips at untouched sites, n=16 values/combinations a generated suite may hold constant)
    "C01-16": "killed by the C15 check (element lists with two-digit indices); C01 draws at most four references - listed under also_checks",
    "C02-16": "killed by the C07 check (its end-to-end configuration has a root logger and nothing else); the C02 package holds a handle lg0, so every C02 configuration has that logger - listed under also_checks",
    "C03-16": "killed by the C08 check (the same file:line at many widths in one process); listed under also_checks",
    "C04-15": "killed by the C05 check (Refresh-built asynchronous logger with file appenders and a backlog at Destroy); listed under also_checks",
    "C05-16": "the logger under test was never the configured root; a third of the Refresh-built cases now configure it as root (raw writes through the root handle)",
    "C06-16": "buffer sizes of the single-stepped histories were 100..130; now also 200, 256, 399, 1000",
    "C08-15": "killed by the C10 check (hooks are set and unset independently); listed under also_checks",
    "C08-16": "every event object was formatted at one width; a quarter are now formatted through a layout of another width first (console at 20, file at 200)",
    "C09-15": "killed by the C08 check (marshal errors with hostile text in the text layout); listed under also_checks",
    "C10-16": "killed by the C08 check (hostile context strings in the text layout); listed under also_checks",
    "C11-16": "killed by the C15 check (top-level properties in every key spelling); listed under also_checks",
    "C12-16": "as C01-16: killed by the C15 check; listed under also_checks",
    "C13-16": "file names were roll.log, r, a.b; names holding digits and time-layout tokens added (app1.log, node05.log, w2006-01-02.log, Jan_PM.MST)",
    "C14-15": "the RollingFile logger with separate=true only ever got INFO events; every third call is WARN now, and the files written during the run must still be there",
    "C14-16": "every real-rotation run used a fresh directory; an earlier appender on the same directory and name in the same process now leaves a file that is then aged and must go",
    "C15-15": "logger names were lg1..lg3; now lg1, zz2, svc3 (both sides of root)",
    "C15-16": "every configuration had at least one logger; one in ten has appenders only",
    "C18-16": "helper sub types had at most two segments; three segments with and without an action added",
    "C19-15": "killed by the C16 check (a RollingFile logger on a missing directory: Refresh must fail); listed under also_checks",
    "C19-16": "the log directory was a real directory that came back; now also a symbolic link that comes back pointing at a new directory",
    "C20-15": "killed by the C02 check (asynchronous root logger that was never started: the call hangs); listed under also_checks",
    "C20-16": "killed by the C13 check (time-lines west of UTC with a maximum age of 1-3 h); listed under also_checks",
    # round 9
    "C01-17": "user level codes lay between -1 and 1200; FLOOR (MinInt32), DEEP (-2e9) and CEIL (MaxInt32) added as bounds and event levels (the model's 'no next bound' sentinel was -1 and became a flag)",
    "C02-17": "NOT KILLED, outside the domain: the change makes the empty-stem wildcard '_*' serve tags with a leading underscore; whether the empty stem is 'a proper underscore-delimited prefix' is not pinned down by the property text (DESIGN section 6, carve-out of C02)",
    "C03-17": "every call built its field slice afresh; in half the cases each event's slice is now prepared before the goroutines start and spread into the call in both phases",
    "C06-17": "'Block waits' was judged over 30 ms; a stall of 4 s (quick) / 15 s (thorough) with producers submitting more than the buffer holds added (TestC06_BlockLongStall)",
    "C07-17": "the harness copied each line at once and bufferCap was always 10KB; the line is now held un-copied while a later event is formatted, with bufferCap drawn from 64 B to 10 KB",
    "C08-17": "as C07-17 (the same change to both layouts): both lines are held un-copied while later events are formatted, bufferCap drawn from 64 B to 10 KB",
    "C12-17": "no handle for the reserved name 'root' was written through; TestC12_Write now configures the root logger as a fifth named logger of any kind (first killed by the C01/C02/C05/C16 checks, which stay under also_checks)",
    "C13-17": "maximum ages were 1, 3 and 1000 h; 600000 h and 2000000 h ('keep for centuries') added to the time-lines",
    "C15-17": "the only ill-typed level range was an unknown name; 'INFO~', '~ERROR', '~', 'INFO~LOUD', 'INFO-ERROR' ... added to the injected faults",
    "C16-17": "handle writes always carried a payload; a third of them now follow an empty (nil / zero-length) write through the same handle (first killed by the C12 and C04 checks, which stay under also_checks)",
    "C20-17": "killed by the C13 check (stop/start within one second on the same directory appends); listed under also_checks - the C20 children are not restarted on a used directory",
}

_first = None

def first_attempt_survived(sid):
    """Rounds 4 to 9 keep the raw first-attempt output; earlier rounds are listed in SURVIVED_FIRST only if they survived."""
    global _first
    if _first is None:
        _first = {}
        for f in ("ROUND4_first_attempt.jsonl", "ROUND5_first_attempt.jsonl", "ROUND6_first_attempt.jsonl", "ROUND7_first_attempt.jsonl", "ROUND8_first_attempt.jsonl", "ROUND9_first_attempt.jsonl"):
            fp = os.path.join(ROOT, "seeded", f)
            if os.path.exists(fp):
                for line in open(fp):
                    try:
                        r = json.loads(line)
                        _first[r["id"]] = r["result"]
                    except Exception:
                        pass
    return _first.get(sid, "SURVIVED") != "killed"

def main():
    ns = sys.argv[1:] or ["5", "6"]
    res = {r["id"]: r for r in json.load(open(os.path.join(ROOT, "seeded", "RESULTS_quick.json")))}
    print("| seeded change | what was changed (agent's words) | needs to manifest | outcome |\n|---|---|---|---|")
    for d in sorted(glob.glob(os.path.join(ROOT, "seeded", "C*-*"))):
        sid = os.path.basename(d)
        if sid.split("-")[1] not in ns:
            continue
        m = json.load(open(os.path.join(d, "meta.json")))
        r = res.get(sid, {})
        by = [p for p, c in (r.get("checks") or {}).items() if c.get("killed")]
        out = ("killed by " + ", ".join(f"`./check {p} quick`" for p in by)) if by else r.get("result", "not run")
        if sid in SURVIVED_FIRST and SURVIVED_FIRST[sid] and first_attempt_survived(sid):
            out += "; SURVIVED first: " + SURVIVED_FIRST[sid]
        cl = lambda s: s.replace("|", "/").replace("\n", " ")
        print(f"| {sid} | {cl(m['summary'])[:330]} | {cl(m['needs'])[:300]} | {out} |")

if __name__ == "__main__":
    main()
