//go:build verif

// C14 - retention cleanup deletes only this appender's own expired files.
//
// Generated directory populations around a started appender; the retention scan is run
// synchronously through the verif hook; the survivors must be exactly what the property allows.
package c14

import (
	"context"
	"fmt"
	"os"
	"os/exec"
	"path/filepath"
	"regexp"
	"slices"
	"sort"
	"strconv"
	"strings"
	"syscall"
	"testing"
	"time"

	"github.com/go-spring/log"
	"pgregory.net/rapid"

	"verifharness/vk"
)

const rule = "directory populations around a started appender (own files name.<14 digits> with plausible and implausible digit strings; near misses with 13/15 digits, .gz suffix, non-digits; prefix-sharing foreigners name.wf.<ts>, name.audit.<ts>, name.bak, name.1.gz; unrelated files; sub-directories, some named like own files) with modification times at cut-off +- (2 min .. 1000 h), max age 1..720 h, incl. the name / name.wf sibling layout; non-trivial = >=1 expired own file and >=1 expired prefix-sharing foreigner; distinct by (name, max age, population)"

type entry struct {
	Name    string
	Dir     bool
	AgeMin  int // age in minutes relative to now
	Comment string
	// Special: not a regular file although named like an own file - "symlink-file", "symlink-dir",
	// "symlink-dangling" (the link itself carries the old modification time) or "fifo". The cleanup
	// deletes regular files only.
	Special string
}

type popCase struct {
	Name   string // appender file name
	MaxAge int    // hours
	// IntervalM: the appender's rotation interval in minutes. The built-in policies stop at one hour,
	// an application may register a daily or weekly one; a maximum age is what was configured,
	// whatever the interval.
	IntervalM int
	Entries   []entry
	Sibling   bool // also a "<name>.wf" appender in the same directory
	Second    bool // run a second scan of the same appender after more expired files appeared
	DirForm   int  // how FileDir is spelled: 0 as is, 1 trailing slash, 2 doubled slash, 3 "/./" inside, 4 relative with "./", 5 a symbolic link to it
	Outage    bool // an earlier scan of the same appender found the directory gone (listing failed)
}

func (c popCase) String() string {
	var p []string
	for _, e := range c.Entries {
		d := ""
		if e.Dir {
			d = "/"
		}
		p = append(p, fmt.Sprintf("%s%s@%dmin", e.Name, d, e.AgeMin))
	}
	return fmt.Sprintf("name=%q maxAge=%dh interval=%dm sibling=%v second=%v outage=%v dirForm=%d entries=[%s]", c.Name, c.MaxAge, c.IntervalM, c.Sibling, c.Second, c.Outage, c.DirForm, strings.Join(p, " "))
}

var digits14 = rapid.OneOf(
	rapid.StringMatching(`20[0-9]{2}(0[1-9]|1[0-2])(0[1-9]|1[0-9]|2[0-8])([01][0-9]|2[0-3])[0-5][0-9][0-5][0-9]`),
	rapid.StringMatching(`[0-9]{14}`),
	rapid.SampledFrom([]string{"00000000000000", "99999999999999", "20261001153000", "19700101000000"}),
)

func genCase(t *rapid.T) popCase {
	c := popCase{
		Name:      rapid.SampledFrom([]string{"app.log", "svc", "a.b.c", "x-y_z.log", "app.log.wf", "log", "access+1.log"}).Draw(t, "name"),
		MaxAge:    rapid.SampledFrom([]int{1, 2, 24, 168, 720, 3, 48}).Draw(t, "maxAge"),
		Sibling:   rapid.Bool().Draw(t, "sibling"),
		Second:    rapid.Bool().Draw(t, "secondScan"),
		Outage:    rapid.IntRange(0, 3).Draw(t, "outageScan") == 0,
		DirForm:   rapid.SampledFrom([]int{0, 0, 1, 2, 3, 4, 5}).Draw(t, "dirForm"),
		IntervalM: rapid.SampledFrom([]int{60, 60, 1440, 10080, 30, 10, 2880}).Draw(t, "intervalM"),
	}
	if rapid.Bool().Draw(t, "anyAge") {
		c.MaxAge = rapid.IntRange(1, 720).Draw(t, "maxAgeAny")
	}
	cut := c.MaxAge * 60
	age := func(label string) int {
		d := rapid.SampledFrom([]int{2, 3, 10, 59, 60, 61, 600, 6000, 60000}).Draw(t, label+"delta")
		if rapid.Bool().Draw(t, label+"older") {
			return cut + d
		}
		return max(0, cut-d)
	}
	n := rapid.IntRange(1, 14).Draw(t, "nentries")
	used := map[string]bool{}
	for i := 0; i < n; i++ {
		var e entry
		l := fmt.Sprintf("e%d", i)
		switch rapid.IntRange(0, 10).Draw(t, l+"kind") {
		case 10:
			// another program's file whose name differs from ours in letter case only (the file system is case-sensitive)
			v := strings.ToUpper(c.Name[:1]) + c.Name[1:]
			if rapid.Bool().Draw(t, l+"allUpper") || v == c.Name {
				v = strings.ToUpper(c.Name)
			}
			e = entry{Name: v + "." + digits14.Draw(t, l+"ts"), Comment: "foreign: differs in letter case"}
		case 0, 1, 2:
			e = entry{Name: c.Name + "." + digits14.Draw(t, l+"ts"), Comment: "own"}
		case 3:
			e = entry{Name: c.Name + "." + rapid.SampledFrom([]string{"wf.", "audit.", "1.", "old."}).Draw(t, l+"mid") + digits14.Draw(t, l+"ts"), Comment: "prefix-sharing foreigner"}
		case 4:
			e = entry{Name: c.Name + rapid.SampledFrom([]string{".bak", ".1.gz", ".", ".tmp", ".2026", ".wf"}).Draw(t, l+"suffix"), Comment: "prefix-sharing foreigner"}
		case 5:
			e = entry{Name: c.Name + "." + rapid.OneOf(rapid.StringMatching(`[0-9]{13}`), rapid.StringMatching(`[0-9]{15}`), rapid.StringMatching(`[0-9]{14}\.gz`), rapid.StringMatching(`[0-9]{13}[a-z]`), rapid.StringMatching(`[a-z]{14}`), rapid.StringMatching(` [0-9]{13}`), rapid.StringMatching(`[0-9]{7}-[0-9]{6}`)).Draw(t, l+"near"), Comment: "near miss"}
		case 6:
			e = entry{Name: rapid.SampledFrom([]string{"other.log.20200101000000", "readme.txt", "app", "core", ".hidden", "zzz." + c.Name + ".20200101000000", strings.ToUpper(c.Name) + ".20200101000000"}).Draw(t, l+"other"), Comment: "unrelated"}
		case 7:
			e = entry{Name: c.Name + "." + digits14.Draw(t, l+"ts"), Dir: true, Comment: "directory named like an own file"}
		case 8:
			e = entry{Name: rapid.SampledFrom([]string{"archive", c.Name + ".d", "sub"}).Draw(t, l+"dir"), Dir: true, Comment: "directory"}
			if rapid.Bool().Draw(t, l+"special") {
				sp := rapid.SampledFrom([]string{"symlink-dir", "symlink-file", "fifo", "symlink-dangling"}).Draw(t, l+"specialKind")
				e = entry{Name: c.Name + "." + digits14.Draw(t, l+"ts"), Special: sp, Comment: "not a regular file (" + sp + ") named like an own file"}
			}
		default:
			e = entry{Name: c.Name + ".wf." + digits14.Draw(t, l+"ts"), Comment: "sibling appender's file"}
		}
		if used[e.Name] {
			continue
		}
		used[e.Name] = true
		e.AgeMin = age(l)
		c.Entries = append(c.Entries, e)
	}
	return c
}

func list(dir string) map[string]bool {
	m := map[string]bool{}
	ents, _ := os.ReadDir(dir)
	for _, e := range ents {
		m[e.Name()] = true
	}
	return m
}

// spell returns another spelling of the same directory (what a configuration may well contain:
// "./logs", "logs/", a path put together from pieces).
func spell(dir string, form int) string {
	switch form {
	case 1:
		return dir + "/"
	case 2:
		i := strings.LastIndex(dir, "/")
		return dir[:i] + "//" + dir[i+1:]
	case 3:
		i := strings.LastIndex(dir, "/")
		return dir[:i] + "/./" + dir[i+1:]
	case 5:
		// the configured directory is a symbolic link to the real one
		link := dir + ".lnk"
		_ = os.Remove(link)
		if os.Symlink(dir, link) == nil {
			return link
		}
	case 4:
		if wd, err := os.Getwd(); err == nil {
			if rel, err := filepath.Rel(wd, dir); err == nil {
				return "./" + rel
			}
		}
	}
	return dir
}

// The process lives in a zone that changed its UTC offset three days ago (a daylight-saving
// switch): a maximum age is a number of hours, whatever the calendar did in between.
func init() {
	sw := time.Now().Add(-72 * time.Hour).Truncate(time.Hour).Unix()
	be32 := func(v int64) []byte { return []byte{byte(v >> 24), byte(v >> 16), byte(v >> 8), byte(v)} }
	var b []byte
	b = append(b, "TZif"...)
	b = append(b, make([]byte, 16)...)            // version 1 + reserved
	for _, n := range []int64{0, 0, 0, 1, 2, 8} { // isutcnt isstdcnt leapcnt timecnt typecnt charcnt
		b = append(b, be32(n)...)
	}
	b = append(b, be32(sw)...)                 // the transition
	b = append(b, 1)                           // ... to type 1
	b = append(b, append(be32(3600), 0, 0)...) // type 0: +01:00, standard, "STD"
	b = append(b, append(be32(7200), 1, 4)...) // type 1: +02:00, DST, "DST"
	b = append(b, "STD\x00DST\x00"...)
	if loc, err := time.LoadLocationFromTZData("Verif/Switched", b); err == nil {
		time.Local = loc
	}
}

func newAppender(dir, name string, maxAge int) *log.RollingFileAppender {
	return newAppenderEvery(dir, name, maxAge, 60)
}

func newAppenderEvery(dir, name string, maxAge, intervalM int) *log.RollingFileAppender {
	if intervalM == 0 {
		intervalM = 60
	}
	return &log.RollingFileAppender{AppenderBase: log.AppenderBase{Name: "r"}, Layout: &log.TextLayout{BaseLayout: log.BaseLayout{FileLineLength: 48}},
		FileDir: dir, FileName: name, Rotation: log.TimeRotation{Interval: time.Duration(intervalM) * time.Minute}, MaxAge: int32(maxAge)}
}

// verdict: -1 must be deleted, +1 must survive, 0 either (within a minute of the cut-off)
func verdict(appName string, maxAge int, e entry) int {
	own := regexp.MustCompile(`^` + regexp.QuoteMeta(appName) + `\.\d{14}$`)
	if e.Dir || e.Special != "" || !own.MatchString(e.Name) {
		return +1
	}
	cut := maxAge * 60
	switch {
	case e.AgeMin > cut+1:
		return -1
	case e.AgeMin < cut-1:
		return +1
	}
	return 0
}

// makeSpecial puts something that is not a regular file at p, with the given modification time
// (for a symbolic link: the time of the link itself, which is what a directory listing reports).
func makeSpecial(dir, p, kind string, mt time.Time) error {
	targetDir, targetFile := filepath.Join(dir, "linked.d"), filepath.Join(dir, "linked.txt")
	_ = os.Mkdir(targetDir, 0o755)
	if _, err := os.Stat(targetFile); err != nil {
		_ = os.WriteFile(targetFile, []byte("precious\n"), 0o644)
	}
	var err error
	switch kind {
	case "symlink-dir":
		err = os.Symlink(targetDir, p)
	case "symlink-file":
		err = os.Symlink(targetFile, p)
	case "symlink-dangling":
		err = os.Symlink(filepath.Join(dir, "nowhere"), p)
	default:
		if err = syscall.Mkfifo(p, 0o644); err == nil {
			err = os.Chtimes(p, mt, mt)
		}
		return err
	}
	if err != nil {
		return err
	}
	if out, err := exec.Command("touch", "-h", "-d", "@"+strconv.FormatInt(mt.Unix(), 10), p).CombinedOutput(); err != nil {
		return fmt.Errorf("touch -h: %v %s", err, out)
	}
	return nil
}

func runCase(c popCase, dir string) error {
	a := newAppenderEvery(spell(dir, c.DirForm), c.Name, c.MaxAge, c.IntervalM)
	if err := a.Start(); err != nil {
		return fmt.Errorf("VERIF-INCONCLUSIVE: %v", err)
	}
	defer a.Stop()
	var sib *log.RollingFileAppender
	if c.Sibling {
		sib = newAppenderEvery(dir, c.Name+".wf", c.MaxAge, c.IntervalM)
		if err := sib.Start(); err != nil {
			return fmt.Errorf("VERIF-INCONCLUSIVE: %v", err)
		}
		defer sib.Stop()
	}
	current := list(dir) // the files being written right now
	now := time.Now()
	for _, e := range c.Entries {
		p := filepath.Join(dir, e.Name)
		if current[e.Name] {
			continue // never fabricate an old *current* file: that state is unreachable
		}
		if e.Special != "" {
			if err := makeSpecial(dir, p, e.Special, now.Add(-time.Duration(e.AgeMin)*time.Minute)); err != nil {
				return fmt.Errorf("VERIF-INCONCLUSIVE: %v", err)
			}
			continue
		}
		if e.Dir {
			if err := os.Mkdir(p, 0o755); err != nil {
				return fmt.Errorf("VERIF-INCONCLUSIVE: %v", err)
			}
		} else if err := os.WriteFile(p, []byte("x\n"), 0o644); err != nil {
			return fmt.Errorf("VERIF-INCONCLUSIVE: %v", err)
		}
		mt := now.Add(-time.Duration(e.AgeMin) * time.Minute)
		if err := os.Chtimes(p, mt, mt); err != nil {
			return fmt.Errorf("VERIF-INCONCLUSIVE: %v", err)
		}
	}
	check := func(who string, appName string) error {
		after := list(dir)
		for name := range current {
			if !after[name] {
				return fmt.Errorf("cleanup of %q deleted %s, a file currently being written", who, name)
			}
		}
		for _, e := range c.Entries {
			if current[e.Name] {
				continue
			}
			// the verdict is cumulative over the cleanups run so far
			v := verdict(c.Name, c.MaxAge, e)
			if appName != c.Name || c.Sibling && who == "both" {
				if v2 := verdict(c.Name+".wf", c.MaxAge, e); who == "both" && v2 < v {
					v = v2
				}
			}
			switch {
			case v > 0 && !after[e.Name]:
				return fmt.Errorf("cleanup (%s) deleted %q (%s, %d min old, cut-off %d min) which it must never delete", who, e.Name, e.Comment, e.AgeMin, c.MaxAge*60)
			case v < 0 && after[e.Name]:
				return fmt.Errorf("cleanup (%s) kept %q (%s, %d min old) although it is this appender's own file and older than the maximum age of %d h", who, e.Name, e.Comment, e.AgeMin, c.MaxAge)
			}
		}
		return nil
	}
	if c.Outage {
		// a scan while the directory is away cannot list it and deletes nothing; it must not change
		// what the next scan does
		away := dir + ".away"
		if err := os.Rename(dir, away); err != nil {
			return fmt.Errorf("VERIF-INCONCLUSIVE: %v", err)
		}
		p := vk.Catch(func() { log.VerifClearExpiredFiles(a) })
		if err := os.Rename(away, dir); err != nil {
			return fmt.Errorf("VERIF-INCONCLUSIVE: %v", err)
		}
		if p != nil {
			return fmt.Errorf("a cleanup while the log directory was away panicked: %v", p)
		}
	}
	log.VerifClearExpiredFiles(a)
	if err := check("appender "+c.Name, c.Name); err != nil {
		return err
	}
	// a later scan of the SAME appender: files that expired (or were put there) in the meantime
	if c.Second {
		late := []string{c.Name + ".20190101000000", c.Name + ".20180203040506"}
		old := now.Add(-time.Duration(c.MaxAge*60+90) * time.Minute)
		for _, n := range late {
			p := filepath.Join(dir, n)
			if _, err := os.Stat(p); err == nil {
				continue
			}
			_ = os.WriteFile(p, []byte("late\n"), 0o644)
			_ = os.Chtimes(p, old, old)
		}
		log.VerifClearExpiredFiles(a)
		after := list(dir)
		for _, n := range late {
			if after[n] {
				return fmt.Errorf("a second cleanup of the same appender kept %q, an own file older than the maximum age of %d h that appeared after the first cleanup", n, c.MaxAge)
			}
		}
		if err := check("appender "+c.Name+" (second scan)", c.Name); err != nil {
			return err
		}
	}
	if sib != nil {
		log.VerifClearExpiredFiles(sib)
		if err := check("both", c.Name+".wf"); err != nil {
			return err
		}
	}
	return nil
}

func TestC14_Populations(t *testing.T) {
	vk.Rule(rule)
	base := vk.Scratch("c14")
	n := 0
	rapid.Check(t, func(t *rapid.T) {
		c := genCase(t)
		if vk.Known("C14:prefix-match-deletes-foreign-files") {
			var keep []entry
			for _, e := range c.Entries {
				if e.Comment == "own" || e.Comment == "unrelated" || e.Dir {
					keep = append(keep, e)
				}
			}
			c.Entries = keep
			vk.Excluded("C14:prefix-match-deletes-foreign-files")
		}
		n++
		dir := filepath.Join(base, strconv.Itoa(n))
		_ = os.MkdirAll(dir, 0o755)
		defer os.RemoveAll(dir)
		vk.Eval()
		expiredOwn, expiredForeign := false, false
		for _, e := range c.Entries {
			if e.AgeMin > c.MaxAge*60+1 {
				if e.Comment == "own" {
					expiredOwn = true
				}
				if e.Comment == "prefix-sharing foreigner" || e.Comment == "sibling appender's file" || e.Comment == "near miss" {
					expiredForeign = true
				}
			}
			vk.Class("entry:" + e.Comment)
		}
		if expiredOwn && expiredForeign {
			vk.NonTrivial(c.String())
		}
		vk.Sample(map[string]any{"population": c.String()})
		if err := runCase(c, dir); err != nil {
			if strings.Contains(err.Error(), "VERIF-INCONCLUSIVE") {
				t.Fatalf("%v", err)
			}
			t.Fatalf("VERIF-VIOLATION C14: %v\ncase: %s", err, c)
		}
	})
}

var tagRL = log.RegisterTag("_c14_rl")

func init() {
	log.RegisterTimeRotation("1s", log.TimeRotation{Interval: time.Second})
}

// TestC14_RealRotation drives the un-hooked path: a real 1 s rotation starts the asynchronous
// cleanup; the harness polls until the expected victims are gone and then requires that nothing
// else disappeared.
func TestC14_RealRotation(t *testing.T) {
	vk.Rule(rule)
	vk.Assume("the wall clock does not step during a run")
	base := vk.Scratch("c14r")
	runs := 2
	if vk.Thorough() {
		runs = 8
	}
	errs := make(chan error, runs)
	for r := 0; r < runs; r++ {
		go func() {
			dir := filepath.Join(base, strconv.Itoa(r))
			_ = os.MkdirAll(dir, 0o755)
			name := []string{"app.log", "svc"}[r%2]
			// an earlier life of the same directory and name in this process (the application was
			// reconfigured): the file it wrote is an own file like any other once it is old
			a0 := newAppender(dir, name, 1+r)
			a0.Rotation = log.TimeRotation{Interval: time.Second}
			if err := a0.Start(); err != nil {
				errs <- fmt.Errorf("VERIF-INCONCLUSIVE: %v", err)
				return
			}
			a0.Write([]byte("first life\n"))
			a0.Stop()
			var firstLife string
			for n := range list(dir) {
				firstLife = n
			}
			now := time.Now()
			time.Sleep(now.Truncate(time.Second).Add(time.Second + 30*time.Millisecond).Sub(now))
			a := newAppender(dir, name, 1+r)
			a.Rotation = log.TimeRotation{Interval: time.Second}
			if err := a.Start(); err != nil {
				errs <- fmt.Errorf("VERIF-INCONCLUSIVE: %v", err)
				return
			}
			old := time.Now().Add(-time.Duration(2+r) * time.Hour)
			victims := []string{name + ".20200101000000", name + ".20210203040506"}
			if firstLife != "" {
				_ = os.Chtimes(filepath.Join(dir, firstLife), old, old)
			}
			keepers := []string{name + ".wf.20200101000000", name + ".bak", name + ".1.gz", name + ".2020010100000", "other.20200101000000", name + ".20200101000000.gz"}
			for _, f := range append(append([]string{}, victims...), keepers...) {
				p := filepath.Join(dir, f)
				_ = os.WriteFile(p, []byte("x"), 0o644)
				_ = os.Chtimes(p, old, old)
			}
			_ = os.Mkdir(filepath.Join(dir, name+".20190101000000"), 0o755)
			_ = os.Chtimes(filepath.Join(dir, name+".20190101000000"), old, old)
			deadline := time.Now().Add(20 * time.Second) // generous: the loop ends as soon as the victims are gone
			gone := false
			for time.Now().Before(deadline) && !gone {
				a.Write([]byte("tick\n"))
				time.Sleep(50 * time.Millisecond)
				l := list(dir)
				gone = !l[victims[0]] && !l[victims[1]] && !l[firstLife]
			}
			a.Stop()
			time.Sleep(100 * time.Millisecond)
			l := list(dir)
			if !gone {
				errs <- fmt.Errorf("after real rotations over 20 s the expired own files %v and %s (written by an earlier appender on the same directory and name in this process, then aged) were not all removed; left: %v", victims, firstLife, l)
				return
			}
			for _, k := range append(keepers, name+".20190101000000") {
				if !l[k] {
					errs <- fmt.Errorf("the cleanup triggered by a real rotation deleted %q, which is not one of the appender's own expired files", k)
					return
				}
			}
			errs <- nil
		}()
	}
	for r := 0; r < runs; r++ {
		err := <-errs
		vk.Eval()
		vk.Class("real-rotation-run")
		vk.NonTrivial(fmt.Sprintf("real-rotation-%d", r))
		if err != nil {
			if strings.Contains(err.Error(), "VERIF-INCONCLUSIVE") {
				t.Fatalf("%v", err)
			}
			t.Fatalf("VERIF-VIOLATION C14: %v", err)
		}
	}
	// the same through a RollingFile *logger* built by Refresh (its appenders are internal): with
	// separate=false the logger owns name.<ts> only - name.wf.<ts> files in the directory belong to
	// somebody else; with separate=true they are its second appender's own files (either way is fine)
	for i, separate := range []bool{false, true} {
		dir := filepath.Join(base, fmt.Sprintf("lg%d", i))
		_ = os.MkdirAll(dir, 0o755)
		log.Destroy()
		if err := log.Refresh(map[string]string{
			"appender.unused.type": "Discard",
			"logger.rl.type":       "RollingFile", "logger.rl.tags": "_c14_rl", "logger.rl.fileDir": dir, "logger.rl.fileName": "app.log",
			"logger.rl.rotation": "1s", "logger.rl.maxAge": "1", "logger.rl.separate": strconv.FormatBool(separate), "logger.rl.async": "false",
		}); err != nil {
			t.Fatalf("VERIF-INCONCLUSIVE C14: %v", err)
		}
		old := time.Now().Add(-3 * time.Hour)
		victims := []string{"app.log.20200101000000", "app.log.20210203040506"}
		keepers := []string{"app.log.audit.20200101000000", "app.log.bak", "app.log.1.gz", "app.log.2020010100000", "other.20200101000000", "app.log.20200101000000.gz"}
		wf := []string{"app.log.wf.20200101000000", "app.log.wf.20210203040506"}
		for _, f := range append(append(append([]string{}, victims...), keepers...), wf...) {
			p := filepath.Join(dir, f)
			_ = os.WriteFile(p, []byte("x"), 0o644)
			_ = os.Chtimes(p, old, old)
		}
		deadline := time.Now().Add(20 * time.Second)
		gone := false
		for n := 0; time.Now().Before(deadline) && !gone; n++ {
			log.Info(context.Background(), tagRL, log.Int("id", n))
			if n%3 == 2 {
				log.Warn(context.Background(), tagRL, log.Int("id", n)) // with separate=true: the .wf appender rotates and cleans up too
			}
			time.Sleep(50 * time.Millisecond)
			l := list(dir)
			gone = !l[victims[0]] && !l[victims[1]]
		}
		log.Destroy()
		time.Sleep(100 * time.Millisecond)
		l := list(dir)
		vk.Eval()
		vk.Class("real-rotation-run:rolling-file-logger")
		vk.NonTrivial(fmt.Sprintf("real-rotation-logger-%v", separate))
		if !gone {
			t.Fatalf("VERIF-VIOLATION C14: RollingFile logger (separate=%v): after real rotations over 20 s the expired own files %v were not removed", separate, victims)
		}
		if !separate {
			keepers = append(keepers, wf...)
		}
		// what was written during this run is seconds old: it stays, in both files
		young := map[bool]int{}
		for n := range l {
			if strings.HasPrefix(n, "app.log.wf.2") && !slices.Contains(wf, n) {
				young[true]++
			} else if m := regexp.MustCompile(`^app\.log\.\d{14}$`).MatchString(n); m && !slices.Contains(victims, n) {
				young[false]++
			}
		}
		if young[false] == 0 || separate && young[true] == 0 {
			t.Fatalf("VERIF-VIOLATION C14: RollingFile logger (separate=%v, maxAge=1h): of the files written during the last seconds %d app.log.<ts> and %d app.log.wf.<ts> are left - files younger than the maximum age are never deleted; directory: %v", separate, young[false], young[true], l)
		}
		for _, k := range keepers {
			if !l[k] {
				t.Fatalf("VERIF-VIOLATION C14: RollingFile logger (separate=%v): the cleanup triggered by a real rotation deleted %q, which is not one of this logger's own expired files", separate, k)
			}
		}
	}
	names := []string{}
	for n := range list(base) {
		names = append(names, n)
	}
	sort.Strings(names)
}

// TestRegress_C14: shrunk failure found before the fix: commit.
func TestRegress_C14(t *testing.T) {
	base := vk.Scratch("c14g")
	for i, c := range []popCase{
		{Name: "app.log", MaxAge: 1, Entries: []entry{{Name: "app.log.bak", AgeMin: 62, Comment: "prefix-sharing foreigner"}}},
		// F22: symbolic links and pipes named like own files were deleted
		{Name: "app.log", MaxAge: 1, Entries: []entry{{Name: "app.log.00000000000000", AgeMin: 62, Special: "symlink-dir", Comment: "not a regular file"}, {Name: "app.log.20200101000001", AgeMin: 600, Special: "symlink-file", Comment: "not a regular file"},
			{Name: "app.log.20200101000002", AgeMin: 600, Special: "fifo", Comment: "not a regular file"}, {Name: "app.log.20200101000003", AgeMin: 600, Special: "symlink-dangling", Comment: "not a regular file"}, {Name: "app.log.20200101000004", AgeMin: 600, Comment: "own"}}},
		{Name: "app.log", MaxAge: 1, Sibling: true, Entries: []entry{{Name: "app.log.wf.20200101000000", AgeMin: 30, Comment: "sibling appender's file"}, {Name: "app.log.20200101000000", AgeMin: 600, Comment: "own"}, {Name: "app.log.1.gz", AgeMin: 6000, Comment: "prefix-sharing foreigner"}}},
	} {
		dir := filepath.Join(base, strconv.Itoa(i))
		_ = os.MkdirAll(dir, 0o755)
		vk.Eval()
		if err := runCase(c, dir); err != nil {
			t.Fatalf("VERIF-VIOLATION C14 regress: %v\ncase: %s", err, c)
		}
	}
}
