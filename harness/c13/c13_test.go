// C13 - the rolling file appender loses nothing across rotations and never truncates.
//
// Real time: the rotation interval is shrunk to 1-2 s through the public TimeRotation, generated
// time-lines place 1-16 writers' writes around real interval boundaries (bursts aimed at the
// boundary, idle intervals, stop/start cycles inside one second). Oracle over the measured history:
// record multiset, file naming, "no record in a file whose name time is later than the record's
// completion", and for single-writer scripts "a write after boundary B is in a file of B or later".
package c13

import (
	"fmt"
	"hash/crc32"
	"os"
	"path/filepath"
	"regexp"
	"sort"
	"strconv"
	"strings"
	"sync"
	"syscall"
	"testing"
	"time"

	"github.com/go-spring/log"
	"pgregory.net/rapid"

	"verifharness/vk"
)

const rule = "time-lines: interval 1 s or 2 s, 1-16 writers each looping a script of {write of 1 B..64 KiB, sleep, wait until just before/at the next boundary then burst}, running 2.2-4.5 s (quick) / up to 10 s (thorough), with generated stop/start cycles (writers quiesced) inside one second; non-trivial = >=2 files and a write within 5 ms of a boundary while >=2 writers were active, or a restart within one second; distinct by the drawn time-line"

// The process runs in a local zone that is not UTC (one per step of the check): file names carry the
// local wall clock, and harness and library must agree on it.
func init() {
	// each step of the check is a process of its own: together they cover a zone west of UTC (where
	// local names read as UTC lie hours in the past, and real UTC names would lie in the future), a
	// zone with a 30-minute offset east of it, and one an hour east
	zone := time.FixedZone("-0800", -28800)
	for _, a := range os.Args {
		if strings.Contains(a, "Edges") {
			zone = time.FixedZone("+0530", 19800)
		} else if strings.Contains(a, "Stalled") {
			zone = time.FixedZone("+0100", 3600)
		}
	}
	time.Local = zone
	for _, a := range os.Args {
		if strings.Contains(a, "ZoneChange") {
			installChangingZone()
		}
	}
}

// A zone whose UTC offset changes every six seconds from shortly after process start: +02:00, then
// +01:00 (clocks go back an hour - the autumn change), then +02:00 again (the spring change), ...
// A daylight-saving change is an ordinary event in the life of a process that logs around the
// clock; this step lives through dozens of them.
var (
	zoneBase time.Time // the first change (a fall back); change k is at zoneBase + k*zoneStep, odd k spring forward
	zoneN    = 120
)

const zoneStep = 6 * time.Second

func installChangingZone() {
	zoneBase = time.Now().Truncate(2 * time.Second).Add(6 * time.Second)
	be32 := func(v int64) []byte { return []byte{byte(v >> 24), byte(v >> 16), byte(v >> 8), byte(v)} }
	var b []byte
	b = append(b, "TZif"...)
	b = append(b, make([]byte, 16)...)
	for _, n := range []int64{0, 0, 0, int64(zoneN), 2, 8} { // isutcnt isstdcnt leapcnt timecnt typecnt charcnt
		b = append(b, be32(n)...)
	}
	for k := 0; k < zoneN; k++ {
		b = append(b, be32(zoneBase.Add(time.Duration(k)*zoneStep).Unix())...)
	}
	for k := 0; k < zoneN; k++ {
		b = append(b, byte((k+1)%2)) // change 0 -> type 1, change 1 -> type 0, ...
	}
	b = append(b, append(be32(7200), 1, 4)...) // type 0: +02:00 "DST" (in force before the first change)
	b = append(b, append(be32(3600), 0, 0)...) // type 1: +01:00 "STD"
	b = append(b, "STD\x00DST\x00"...)
	loc, err := time.LoadLocationFromTZData("Verif/Changing", b)
	if err != nil {
		panic("VERIF-INCONCLUSIVE C13: " + err.Error())
	}
	time.Local = loc
	zoneChanging = true
}

// zoneChanging: the local hour repeats, so a file name stands for two instants an hour apart; the
// one meant is the one next to the writes of the case (a case lasts seconds).
var zoneChanging bool

func resolveName(p time.Time, near time.Time) time.Time {
	best := p
	for _, c := range []time.Time{p.Add(-time.Hour), p.Add(time.Hour)} {
		if c.Format("20060102150405") == p.Format("20060102150405") && absDur(c.Sub(near)) < absDur(best.Sub(near)) {
			best = c
		}
	}
	return best
}

func absDur(d time.Duration) time.Duration {
	if d < 0 {
		return -d
	}
	return d
}

// recLayout hands the appender the record an event carries in its first field, verbatim: the
// Append path of the appender with the harness's self-describing records.
type recLayout struct{}

func (recLayout) ToBytes(e *log.Event) []byte { return e.Fields[0].Any.([]byte) }

// appendRecord sends line through Append. The event's own timestamp is deliberately not the wall
// clock (an application clock, a cached coarse clock, an event that waited in a queue): into which
// file a write goes is decided by when it is written, not by what the event says.
func appendRecord(app *log.RollingFileAppender, line string, n int) {
	e := log.GetEvent()
	switch n % 4 {
	case 0:
		e.Time = time.Now()
	case 1:
		e.Time = time.Now().Add(-90 * time.Minute) // stale stamp
	case 2:
		e.Time = time.Now().Add(75 * time.Minute) // stamp ahead of the clock
	default:
		e.Time = time.Date(2020, 1, 2, 3, 4, 5, 0, time.UTC) // constant stamp
	}
	e.Level, e.Tag = log.InfoLevel, "_c13"
	e.Fields = []log.Field{{Key: "rec", Any: []byte(line)}}
	app.Append(e)
	log.PutEvent(e)
}

type wop struct {
	K   string // w | s | b
	N   int    // size / ms / offset-before-boundary ms
	Rep int    // burst length for w
}

type timeline struct {
	IntervalS   int
	Writers     [][]wop
	DurMS       int
	Restarts    []int // ms offsets from start at which a stop/start cycle happens
	Name        string
	LateStartMS int // start the appender this long after an interval boundary (0 = whenever)
}

func (tl timeline) String() string {
	var ws []string
	for _, w := range tl.Writers {
		var ops []string
		for _, o := range w {
			ops = append(ops, fmt.Sprintf("%s%d", o.K, o.N))
		}
		ws = append(ws, strings.Join(ops, ","))
	}
	return fmt.Sprintf("interval=%ds dur=%dms restarts=%v writers=[%s]", tl.IntervalS, tl.DurMS, tl.Restarts, strings.Join(ws, " | "))
}

func genTimeline(t *rapid.T, label string, maxDur int) timeline {
	tl := timeline{
		IntervalS: rapid.SampledFrom([]int{1, 1, 1, 2}).Draw(t, label+"interval"),
		DurMS:     rapid.IntRange(2200, maxDur).Draw(t, label+"dur"),
		Name:      rapid.SampledFrom([]string{"roll.log", "app1.log", "r", "node05.log", "a.b", "w2006-01-02.log", "Jan_PM.MST"}).Draw(t, label+"name"),
	}
	nw := rapid.SampledFrom([]int{1, 1, 2, 3, 4, 8, 16}).Draw(t, label+"writers")
	if rapid.IntRange(0, 3).Draw(t, label+"late2s") == 0 {
		// one writer, 2 s interval, first write late in its interval: "a write after the boundary goes
		// to a new file" must not depend on when in the interval the appender was started
		tl.IntervalS, nw = 2, 1
		tl.LateStartMS = rapid.SampledFrom([]int{1100, 1500, 1900}).Draw(t, label+"lateStart")
		tl.DurMS = max(tl.DurMS, 4200)
	}
	for w := 0; w < nw; w++ {
		n := rapid.IntRange(1, 6).Draw(t, label+"nops")
		var ops []wop
		for i := 0; i < n; i++ {
			switch rapid.SampledFrom([]string{"w", "w", "b", "s", "w"}).Draw(t, label+"op") {
			case "w":
				size := rapid.SampledFrom([]int{1, 10, 100, 1000, 4096, 65000}).Draw(t, label+"size")
				if rapid.Bool().Draw(t, label+"anySize") {
					size = rapid.IntRange(0, 65000).Draw(t, label+"sizeAny")
				}
				ops = append(ops, wop{K: "w", N: size, Rep: rapid.SampledFrom([]int{1, 1, 3, 20}).Draw(t, label+"rep")})
			case "s":
				ops = append(ops, wop{K: "s", N: rapid.SampledFrom([]int{0, 1, 5, 50, 300, 1100, 2100}).Draw(t, label+"sleep")})
			default:
				ops = append(ops, wop{K: "b", N: rapid.SampledFrom([]int{0, 1, 2, 5, 20}).Draw(t, label+"before")})
			}
		}
		// every script must contain a write and must not spin
		ops = append(ops, wop{K: "w", N: 32, Rep: 1}, wop{K: "s", N: 3})
		tl.Writers = append(tl.Writers, ops)
	}
	nr := rapid.SampledFrom([]int{0, 0, 1, 2, 4}).Draw(t, label+"nrestarts")
	for i := 0; i < nr; i++ {
		tl.Restarts = append(tl.Restarts, rapid.IntRange(50, tl.DurMS-100).Draw(t, label+"restartAt"))
	}
	sort.Ints(tl.Restarts)
	return tl
}

type rec struct {
	w, seq     int
	first      string // first byte of the payload (payloads are one repeated byte)
	size       int
	start, end time.Time
}

type outcome struct {
	err        error
	files      int
	nearEdge   bool
	restartsIn bool
	records    int
}

var lineRe = regexp.MustCompile(`^w(\d+):(\d+):(\d+):([0-9a-f]{8})\|(.*)$`)
var nameRe = regexp.MustCompile(`^(.*)\.(\d{14})$`)

func runTimeline(tl timeline, dir string) outcome {
	interval := time.Duration(tl.IntervalS) * time.Second
	newApp := func() *log.RollingFileAppender {
		return &log.RollingFileAppender{AppenderBase: log.AppenderBase{Name: "r"}, Layout: recLayout{},
			FileDir: dir, FileName: tl.Name, Rotation: log.TimeRotation{Interval: interval}, MaxAge: int32([]int{1000, 1, 3, 600000, 2000000}[(len(tl.Writers)+len(tl.Name))%5])} // up to "keep for centuries" (the hours still fit a Duration)
	}
	app := newApp()
	if tl.LateStartMS > 0 {
		now := time.Now()
		time.Sleep(now.Truncate(interval).Add(interval+time.Duration(tl.LateStartMS)*time.Millisecond).Sub(now) % interval)
	}
	if err := app.Start(); err != nil {
		return outcome{err: fmt.Errorf("VERIF-INCONCLUSIVE: %v", err)}
	}
	var gate sync.RWMutex // writers hold it shared while writing; a restart takes it exclusively
	startT := time.Now()
	endT := startT.Add(time.Duration(tl.DurMS) * time.Millisecond)
	var mu sync.Mutex
	var all []rec
	var wg sync.WaitGroup
	for w, script := range tl.Writers {
		wg.Add(1)
		go func() {
			defer wg.Done()
			var mine []rec
			seq := 0
			budget := 1 << 20 // bytes of large payloads per writer; afterwards sizes are clamped (volume, not coverage, is bounded)
			for time.Now().Before(endT) {
				for _, o := range script {
					if !time.Now().Before(endT) {
						break
					}
					switch o.K {
					case "s":
						time.Sleep(time.Duration(o.N) * time.Millisecond)
					case "b":
						now := time.Now()
						next := now.Truncate(interval).Add(interval)
						if next.After(endT) {
							break
						}
						time.Sleep(next.Sub(now) - time.Duration(o.N)*time.Millisecond)
					default:
						for r := 0; r < o.Rep; r++ {
							size := o.N
							if size > 256 {
								if budget < size {
									size = 64
								} else {
									budget -= size
								}
							}
							payload := strings.Repeat(string(rune('a'+(w+seq)%26)), size)
							line := fmt.Sprintf("w%d:%d:%d:%08x|%s\n", w, seq, len(payload), crc32.ChecksumIEEE([]byte(payload)), payload)
							gate.RLock()
							t0 := time.Now()
							if (w+seq)%3 == 2 {
								appendRecord(app, line, seq) // through Append, with an event time of its own
							} else {
								app.Write([]byte(line))
							}
							t1 := time.Now()
							gate.RUnlock()
							mine = append(mine, rec{w, seq, payload[:min(len(payload), 1)], len(payload), t0, t1})
							seq++
						}
					}
				}
			}
			mu.Lock()
			all = append(all, mine...)
			mu.Unlock()
		}()
	}
	restartsSameSecond := false
	restartSeq := 0
	for _, at := range tl.Restarts {
		time.Sleep(time.Until(startT.Add(time.Duration(at) * time.Millisecond)))
		gate.Lock()
		s0 := time.Now()
		app.Stop()
		cycles := 1 + at%3
		for c := 0; c < cycles; c++ {
			if (at+c)%2 == 0 {
				app = newApp() // a fresh appender value on the same directory ...
			} // ... or the very same value started again
			if err := app.Start(); err != nil {
				gate.Unlock()
				return outcome{err: fmt.Errorf("VERIF-INCONCLUSIVE: restart: %v", err)}
			}
			if c < cycles-1 && (at+c)%3 == 1 {
				app.Stop() // a session that writes nothing: what the reopened file already held must survive it
			} else if c < cycles-1 {
				restartSeq++
				app.Write([]byte(fmt.Sprintf("w99:%d:0:%08x|\n", restartSeq, crc32.ChecksumIEEE(nil))))
				mu.Lock() // a writer whose time is up appends its records under mu at any moment
				all = append(all, rec{99, restartSeq, "", 0, s0, time.Now()})
				mu.Unlock()
				app.Stop()
			}
		}
		if time.Now().Truncate(time.Second).Equal(s0.Truncate(time.Second)) {
			restartsSameSecond = true
		}
		gate.Unlock()
	}
	wg.Wait()
	app.Stop()

	out := judge(tl.Name, dir, interval, all, len(tl.Writers) == 1)
	out.nearEdge = out.nearEdge && len(tl.Writers) >= 2
	out.restartsIn = restartsSameSecond
	return out
}

// judge is the oracle over a measured history: every record whole, exactly once, in a file of the
// right name; no file holds a write that completed before the time in its name; with single set
// (writes issued one at a time) a write started after a boundary is not in the previous interval's file.
func judge(name, dir string, interval time.Duration, all []rec, single bool) outcome {
	var nearEdge bool
	ents, _ := os.ReadDir(dir)
	type key struct{ w, seq int }
	found := map[key]int{}
	fileOf := map[key]time.Time{}
	sizeOf := map[key]int{}
	for _, e := range ents {
		m := nameRe.FindStringSubmatch(e.Name())
		if m == nil || m[1] != name {
			return outcome{err: fmt.Errorf("the directory holds %q, which is not of the form %s.<yyyyMMddHHmmss>", e.Name(), name)}
		}
		nameTime, err := time.ParseInLocation("20060102150405", m[2], time.Local)
		if err != nil {
			return outcome{err: fmt.Errorf("file name %q does not carry a valid timestamp", e.Name())}
		}
		if zoneChanging && len(all) > 0 {
			nameTime = resolveName(nameTime, all[len(all)/2].start)
		}
		b, _ := os.ReadFile(filepath.Join(dir, e.Name()))
		if len(b) > 0 && b[len(b)-1] != '\n' {
			return outcome{err: fmt.Errorf("file %s ends in a torn record", e.Name())}
		}
		for _, ln := range strings.Split(strings.TrimSuffix(string(b), "\n"), "\n") {
			if ln == "" && len(b) == 0 {
				continue
			}
			lm := lineRe.FindStringSubmatch(ln)
			if lm == nil {
				return outcome{err: fmt.Errorf("file %s holds a torn or interleaved record: %.80q", e.Name(), ln)}
			}
			w, _ := strconv.Atoi(lm[1])
			seq, _ := strconv.Atoi(lm[2])
			n, _ := strconv.Atoi(lm[3])
			if len(lm[5]) != n || fmt.Sprintf("%08x", crc32.ChecksumIEEE([]byte(lm[5]))) != lm[4] {
				return outcome{err: fmt.Errorf("file %s holds a corrupted record of writer %d seq %d", e.Name(), w, seq)}
			}
			found[key{w, seq}]++
			fileOf[key{w, seq}] = nameTime
			sizeOf[key{w, seq}] = n
		}
	}
	for _, r := range all {
		k := key{r.w, r.seq}
		if found[k] != 1 {
			return outcome{err: fmt.Errorf("record writer=%d seq=%d (%d bytes, written %s) is present %d times in the files, expected exactly once", r.w, r.seq, r.size, r.start.Format("15:04:05.000"), found[k])}
		}
		if sizeOf[k] != r.size {
			return outcome{err: fmt.Errorf("record writer=%d seq=%d was written with %d payload bytes, the file holds %d", r.w, r.seq, r.size, sizeOf[k])}
		}
		nt := fileOf[k]
		if r.end.Add(5 * time.Millisecond).Before(nt) {
			return outcome{err: fmt.Errorf("record writer=%d seq=%d completed at %s but sits in a file named for %s", r.w, r.seq, r.end.Format("15:04:05.000"), nt.Format("15:04:05"))}
		}
		if single && r.w != 99 {
			// written one at a time: a write started after boundary B is in a file created in B's interval or later
			if nt.Truncate(interval).Before(r.start.Add(-5 * time.Millisecond).Truncate(interval)) {
				return outcome{err: fmt.Errorf("single writer: record seq=%d started at %s, after the boundary, but went to the previous interval's file (named %s)", r.seq, r.start.Format("15:04:05.000"), nt.Format("15:04:05"))}
			}
		}
		d := r.start.Sub(r.start.Truncate(interval))
		if d < 5*time.Millisecond || interval-d < 5*time.Millisecond {
			nearEdge = true
		}
	}
	if len(found) != len(all) {
		return outcome{err: fmt.Errorf("the files hold %d distinct records, %d were written", len(found), len(all))}
	}
	return outcome{files: len(ents), nearEdge: nearEdge, records: len(all)}
}

func TestC13_Timelines(t *testing.T) {
	vk.Rule(rule)
	vk.Assume("the wall clock does not step during a run; timestamps of the harness and of the appender come from the same clock (margin 5 ms)")
	vk.Assume("a writer cannot be frozen between loading the current file and writing, so the 'writer stalled for two whole intervals' interleaving is reached only by luck")
	base := vk.Scratch("c13")
	maxDur := 4500
	if vk.Thorough() {
		maxDur = 10000
	}
	batch := 0
	rapid.Check(t, func(t *rapid.T) {
		const K = 8
		var tls []timeline
		for i := 0; i < K; i++ {
			tls = append(tls, genTimeline(t, fmt.Sprintf("t%d", i), maxDur))
		}
		batch++
		outs := make([]outcome, K)
		var wg sync.WaitGroup
		for i := range tls {
			wg.Add(1)
			go func() {
				defer wg.Done()
				dir := filepath.Join(base, fmt.Sprintf("b%d_%d", batch, i))
				_ = os.MkdirAll(dir, 0o755)
				outs[i] = runTimeline(tls[i], dir)
				if outs[i].err == nil {
					_ = os.RemoveAll(dir)
				}
			}()
		}
		wg.Wait()
		for i, o := range outs {
			vk.Eval()
			vk.Class(fmt.Sprintf("writers:%d", len(tls[i].Writers)))
			if o.files >= 2 {
				vk.Class("rotated")
			}
			if o.restartsIn {
				vk.Class("restart-within-one-second")
			}
			if o.files >= 2 && o.nearEdge || o.restartsIn {
				vk.NonTrivial(tls[i].String())
			}
			vk.Sample(map[string]any{"timeline": tls[i].String(), "files": o.files, "records": o.records})
			if o.err != nil {
				if strings.Contains(o.err.Error(), "VERIF-INCONCLUSIVE") {
					t.Fatalf("%v", o.err)
				}
				p := vk.SaveCase("c13", map[string]any{"timeline": tls[i], "error": o.err.Error(), "schedule_dependent": true})
				t.Fatalf("VERIF-VIOLATION C13: %v\ntime-line: %s (case %s)", o.err, tls[i], p)
			}
		}
	})
}

// spinUntil sleeps most of the way and spins the rest: goroutines that must act at the same instant
// have to be running when it comes (woken from a sleep they arrive up to a millisecond apart here).
func spinUntil(at time.Time, spin time.Duration) {
	if d := time.Until(at) - spin; d > 0 {
		time.Sleep(d)
	}
	for time.Now().Before(at) {
	}
}

// TestC13_Edges generates the two boundary situations the free-running time-lines only meet by luck.
//
//	start-across: many appenders, each stopped and started again in a tight loop while an interval
//	  boundary passes (so that some Start straddles it), each then writing one record well inside the
//	  new interval: written one at a time, it must not sit in the previous interval's file.
//	idle-resume: one appender, idle across at least one whole interval, then 2-12 writers resume in
//	  the same instant with long bursts: every record whole and exactly once.
func TestC13_Edges(t *testing.T) {
	vk.Rule(rule)
	base := vk.Scratch("c13e")
	n := 0
	rapid.Check(t, func(t *rapid.T) {
		n++
		dir := filepath.Join(base, strconv.Itoa(n))
		_ = os.MkdirAll(dir, 0o755)
		interval := time.Second
		var err error
		var desc string
		if kind := rapid.SampledFrom([]string{"late", "other", "other"}).Draw(t, "edgeKind"); kind == "late" {
			// an interval longer than a second whose first write comes late in the interval (a quiet
			// service): it belongs to that interval's file all the same
			iv := rapid.SampledFrom([]int{2, 3}).Draw(t, "intervalS")
			lateMS := rapid.SampledFrom([]int{1200, 1700, 1050}).Draw(t, "lateMS")
			desc = fmt.Sprintf("late-first-write interval=%ds first write %d ms after the boundary", iv, lateMS)
			vk.Class("edges:late-first-write")
			err = lateFirstWrite(dir, time.Duration(iv)*time.Second, lateMS)
		} else if rapid.Bool().Draw(t, "startAcross") {
			apps := rapid.SampledFrom([]int{12, 24, 6, 40}).Draw(t, "appenders")
			afterMS := rapid.SampledFrom([]int{300, 120, 600}).Draw(t, "writeAfterMS")
			fresh := rapid.Bool().Draw(t, "freshValue")
			desc = fmt.Sprintf("start-across appenders=%d writeAfter=%dms freshValue=%v", apps, afterMS, fresh)
			vk.Class("edges:start-across")
			err = startAcross(dir, interval, apps, afterMS, fresh)
		} else {
			writers := rapid.SampledFrom([]int{12, 8, 4, 2}).Draw(t, "writers")
			burst := rapid.SampledFrom([]int{3000, 1500, 5000}).Draw(t, "burst")
			idle := rapid.SampledFrom([]int{1, 1, 2}).Draw(t, "idleIntervals")
			offMS := rapid.SampledFrom([]int{150, 20, 500}).Draw(t, "resumeOffsetMS")
			rounds := rapid.SampledFrom([]int{4, 3, 2}).Draw(t, "rounds")
			desc = fmt.Sprintf("idle-resume writers=%d burst=%d idle=%d intervals resume=+%dms rounds=%d", writers, burst, idle, offMS, rounds)
			vk.Class("edges:idle-resume")
			err = idleResume(dir, interval, writers, burst, idle, offMS, rounds)
		}
		vk.Eval()
		vk.NonTrivial(desc)
		vk.Sample(map[string]any{"edge_case": desc})
		if err != nil {
			if strings.Contains(err.Error(), "VERIF-INCONCLUSIVE") {
				t.Fatalf("%v", err)
			}
			p := vk.SaveCase("c13", map[string]any{"edge_case": desc, "error": err.Error(), "schedule_dependent": true})
			t.Fatalf("VERIF-VIOLATION C13: %v\ncase: %s (%s)", err, desc, p)
		}
		_ = os.RemoveAll(dir)
	})
}

// lateFirstWrite: one writer, one record shortly after Start, then silence until lateMS after the
// next boundary (more than a second into the new interval), then two more records.
func lateFirstWrite(dir string, interval time.Duration, lateMS int) error {
	app := &log.RollingFileAppender{AppenderBase: log.AppenderBase{Name: "r"}, FileDir: dir, FileName: "q.log", Rotation: log.TimeRotation{Interval: interval}, MaxAge: 1000}
	if err := app.Start(); err != nil {
		return fmt.Errorf("VERIF-INCONCLUSIVE: %v", err)
	}
	var all []rec
	put := func(seq int) {
		line := fmt.Sprintf("w0:%d:1:%08x|q\n", seq, crc32.ChecksumIEEE([]byte("q")))
		t0 := time.Now()
		app.Write([]byte(line))
		all = append(all, rec{0, seq, "q", 1, t0, time.Now()})
	}
	put(0)
	b := time.Now().Truncate(interval).Add(interval)
	time.Sleep(time.Until(b.Add(time.Duration(lateMS) * time.Millisecond)))
	put(1)
	time.Sleep(120 * time.Millisecond)
	put(2)
	app.Stop()
	return judge("q.log", dir, interval, all, true).err
}

func startAcross(base string, interval time.Duration, apps, afterMS int, fresh bool) error {
	now := time.Now()
	b := now.Truncate(interval).Add(interval)
	if b.Sub(now) < 450*time.Millisecond {
		b = b.Add(interval)
	}
	errs := make([]error, apps)
	var wg sync.WaitGroup
	for i := 0; i < apps; i++ {
		wg.Add(1)
		go func() {
			defer wg.Done()
			dir := filepath.Join(base, strconv.Itoa(i))
			_ = os.MkdirAll(dir, 0o755)
			mk := func() *log.RollingFileAppender {
				return &log.RollingFileAppender{AppenderBase: log.AppenderBase{Name: "r"}, FileDir: dir, FileName: "e.log", Rotation: log.TimeRotation{Interval: interval}, MaxAge: 2} // a short maximum age: nothing written today is older
			}
			app := mk()
			if err := app.Start(); err != nil {
				errs[i] = fmt.Errorf("VERIF-INCONCLUSIVE: %v", err)
				return
			}
			spinUntil(b.Add(-3*time.Millisecond), 350*time.Millisecond)
			for time.Now().Before(b) { // the last Start of this loop is the one during which the boundary passed
				app.Stop()
				if fresh {
					app = mk()
				}
				if err := app.Start(); err != nil {
					errs[i] = fmt.Errorf("VERIF-INCONCLUSIVE: restart: %v", err)
					return
				}
			}
			time.Sleep(time.Until(b.Add(time.Duration(afterMS) * time.Millisecond)))
			line := fmt.Sprintf("w%d:0:0:%08x|\n", i, crc32.ChecksumIEEE(nil))
			t0 := time.Now()
			app.Write([]byte(line))
			t1 := time.Now()
			app.Stop()
			if o := judge("e.log", dir, interval, []rec{{i, 0, "", 0, t0, t1}}, true); o.err != nil {
				errs[i] = fmt.Errorf("appender %d, stopped and started again while the boundary %s passed: %v", i, b.Format("15:04:05"), o.err)
			}
		}()
	}
	wg.Wait()
	for _, e := range errs {
		if e != nil {
			return e
		}
	}
	return nil
}

func idleResume(dir string, interval time.Duration, writers, burst, idle, offMS, rounds int) error {
	app := &log.RollingFileAppender{AppenderBase: log.AppenderBase{Name: "r"}, FileDir: dir, FileName: "e.log", Rotation: log.TimeRotation{Interval: interval}, MaxAge: 2} // a short maximum age: nothing written today is older
	if err := app.Start(); err != nil {
		return fmt.Errorf("VERIF-INCONCLUSIVE: %v", err)
	}
	var all []rec
	var mu sync.Mutex
	seqBase := 0
	for r := 0; r < rounds; r++ {
		pre := fmt.Sprintf("w99:%d:0:%08x|\n", r, crc32.ChecksumIEEE(nil))
		t0 := time.Now()
		app.Write([]byte(pre))
		all = append(all, rec{99, r, "", 0, t0, time.Now()})
		b := time.Now().Truncate(interval).Add(interval)
		resume := b.Add(time.Duration(idle)*interval + time.Duration(offMS)*time.Millisecond)
		var wg sync.WaitGroup
		for w := 0; w < writers; w++ {
			wg.Add(1)
			go func() {
				defer wg.Done()
				lines := make([]string, burst)
				for i := range lines {
					p := string(rune('a' + (w+i)%26))
					lines[i] = fmt.Sprintf("w%d:%d:1:%08x|%s\n", w, seqBase+i, crc32.ChecksumIEEE([]byte(p)), p)
				}
				mine := make([]rec, 0, burst)
				spinUntil(resume, 350*time.Millisecond)
				for i, ln := range lines {
					t0 := time.Now()
					app.Write([]byte(ln))
					mine = append(mine, rec{w, seqBase + i, ln[len(ln)-2 : len(ln)-1], 1, t0, time.Now()})
				}
				mu.Lock()
				all = append(all, mine...)
				mu.Unlock()
			}()
		}
		wg.Wait()
		seqBase += burst
	}
	app.Stop()
	return judge("e.log", dir, interval, all, false).err
}

// TestC13_StalledWriter reaches the interleaving the random time-lines only meet by luck: one
// writer is still inside its write while *two* interval boundaries pass. The harness owns the
// stall: the file of the second interval is a FIFO (created beforehand in the log directory under
// the name the appender is going to use, with a reader that does not drain it), so a writer blocks
// inside write(2) once the pipe is full, exactly like a writer that the scheduler or a slow disk
// holds up. Other writers carry the rotation over the next two boundaries. Every write call that
// returned must have landed exactly once.
func TestC13_StalledWriter(t *testing.T) {
	vk.Rule(rule)
	base := vk.Scratch("c13s")
	runs := 1
	if vk.Thorough() {
		runs = 3
	}
	for r := 0; r < runs; r++ {
		dir := filepath.Join(base, strconv.Itoa(r))
		_ = os.MkdirAll(dir, 0o755)
		err := stalledWriterRun(dir, 900+r*37)
		vk.Eval()
		vk.Class("stalled-writer-run")
		vk.NonTrivial(fmt.Sprintf("stalled-writer-%d", r))
		vk.NonTrivial(fmt.Sprintf("stalled-writer-fifo-%d", r))
		if err != nil {
			if strings.Contains(err.Error(), "VERIF-INCONCLUSIVE") {
				t.Fatalf("%v", err)
			}
			p := vk.SaveCase("c13-stall", map[string]any{"error": err.Error(), "schedule_dependent": true, "scenario": "writer blocked in write(2) on the second interval's file (a FIFO) while two boundaries pass"})
			t.Fatalf("VERIF-VIOLATION C13: %v (case %s)", err, p)
		}
	}
	vk.Sample(map[string]any{"scenario": "stalled writer: A blocks inside write on interval 1's file (FIFO, pipe full) while B rotates at boundaries 2 and 3", "runs": runs})
}

func stalledWriterRun(dir string, recSize int) error {
	const name = "stall.log"
	app := &log.RollingFileAppender{AppenderBase: log.AppenderBase{Name: "r"}, Layout: &log.TextLayout{BaseLayout: log.BaseLayout{FileLineLength: 48}},
		FileDir: dir, FileName: name, Rotation: log.TimeRotation{Interval: time.Second}, MaxAge: 1000}
	// start early in a second so that the plan below fits
	now := time.Now()
	if now.Sub(now.Truncate(time.Second)) > 300*time.Millisecond {
		time.Sleep(now.Truncate(time.Second).Add(time.Second).Sub(now) + 20*time.Millisecond)
	}
	s0 := time.Now().Truncate(time.Second)
	s1, s2, s3 := s0.Add(time.Second), s0.Add(2*time.Second), s0.Add(3*time.Second)
	fifo := filepath.Join(dir, name+"."+s1.Format("20060102150405"))
	if err := syscall.Mkfifo(fifo, 0o644); err != nil {
		return fmt.Errorf("VERIF-INCONCLUSIVE: mkfifo: %v", err)
	}
	rd, err := os.OpenFile(fifo, os.O_RDONLY|syscall.O_NONBLOCK, 0)
	if err != nil {
		return fmt.Errorf("VERIF-INCONCLUSIVE: open fifo: %v", err)
	}
	defer rd.Close()
	if err := app.Start(); err != nil {
		return fmt.Errorf("VERIF-INCONCLUSIVE: %v", err)
	}
	mkline := func(w, seq int) string {
		payload := strings.Repeat(string(rune('a'+seq%26)), recSize)
		return fmt.Sprintf("w%d:%d:%d:%08x|%s\n", w, seq, len(payload), crc32.ChecksumIEEE([]byte(payload)), payload)
	}
	type done struct{ w, seq int }
	var mu sync.Mutex
	var returned []done
	var wg sync.WaitGroup
	stopA := make(chan struct{})
	// writer A: writes steadily from interval 0 on; blocks inside write once interval 1's pipe is full
	wg.Add(1)
	go func() {
		defer wg.Done()
		for seq := 0; ; seq++ {
			select {
			case <-stopA:
				return
			default:
			}
			app.Write([]byte(mkline(0, seq)))
			mu.Lock()
			returned = append(returned, done{0, seq})
			mu.Unlock()
			time.Sleep(3 * time.Millisecond)
		}
	}()
	// writer B: idle across whole intervals; its writes carry the rotation over boundaries 2 and 3
	wg.Add(1)
	go func() {
		defer wg.Done()
		for i, at := range []time.Time{s2.Add(150 * time.Millisecond), s3.Add(150 * time.Millisecond), s3.Add(400 * time.Millisecond)} {
			time.Sleep(time.Until(at))
			app.Write([]byte(mkline(1, i)))
			mu.Lock()
			returned = append(returned, done{1, i})
			mu.Unlock()
		}
	}()
	time.Sleep(time.Until(s3.Add(600 * time.Millisecond)))
	close(stopA)
	// drain the pipe: whatever was accepted by it counts as landed in that file
	var pipeData []byte
	buf := make([]byte, 1<<16)
	deadline := time.Now().Add(2 * time.Second)
	for time.Now().Before(deadline) {
		n, err := rd.Read(buf)
		pipeData = append(pipeData, buf[:n]...)
		if n == 0 && err != nil {
			// EAGAIN: nothing more right now; stop once writer A is no longer blocked
			time.Sleep(20 * time.Millisecond)
			mu.Lock()
			c := len(returned)
			mu.Unlock()
			_ = c
		}
		if waitDone(&wg, 10*time.Millisecond) {
			break
		}
	}
	if !waitDone(&wg, 5*time.Second) {
		return fmt.Errorf("VERIF-HANG a Write call on the rolling appender never returned although its pipe was drained")
	}
	for {
		n, _ := rd.Read(buf)
		if n <= 0 {
			break
		}
		pipeData = append(pipeData, buf[:n]...)
	}
	app.Stop()
	// collect
	found := map[done]int{}
	scan := func(where string, data []byte) error {
		for _, ln := range strings.Split(strings.TrimSuffix(string(data), "\n"), "\n") {
			if ln == "" {
				continue
			}
			m := lineRe.FindStringSubmatch(ln)
			if m == nil {
				return fmt.Errorf("%s holds a torn record %.60q", where, ln)
			}
			w, _ := strconv.Atoi(m[1])
			seq, _ := strconv.Atoi(m[2])
			found[done{w, seq}]++
		}
		return nil
	}
	if err := scan("the interval-1 file (FIFO)", pipeData); err != nil {
		return err
	}
	ents, _ := os.ReadDir(dir)
	regular := 0
	for _, e := range ents {
		if filepath.Join(dir, e.Name()) == fifo {
			continue
		}
		regular++
		b, _ := os.ReadFile(filepath.Join(dir, e.Name()))
		if err := scan(e.Name(), b); err != nil {
			return err
		}
	}
	if len(pipeData) < 40000 {
		return fmt.Errorf("VERIF-INCONCLUSIVE: the pipe never filled (%d bytes): the stall did not happen", len(pipeData))
	}
	if regular < 3 {
		return fmt.Errorf("VERIF-INCONCLUSIVE: only %d regular files: the two later rotations did not happen", regular)
	}
	for _, d := range returned {
		if found[d] != 1 {
			return fmt.Errorf("stalled writer: the write of record writer=%d seq=%d returned to its caller but the record is present %d times in the files (a writer that was still inside its write when two interval boundaries passed had its file closed under it)", d.w, d.seq, found[d])
		}
	}
	return nil
}

func waitDone(wg *sync.WaitGroup, d time.Duration) bool {
	ch := make(chan struct{})
	go func() { wg.Wait(); close(ch) }()
	select {
	case <-ch:
		return true
	case <-time.After(d):
		return false
	}
}

// TestC13_ZoneChange: one writer, writing one record at a time at a steady pace, across an instant
// at which the local zone changes its UTC offset (see installChangingZone). Interval boundaries are
// instants; the wall clock jumping an hour back or forth moves none of them: every record sits
// exactly once in a file created in the interval in which it was written, named for the local
// wall clock of that interval.
func TestC13_ZoneChange(t *testing.T) {
	vk.Rule(rule)
	if !zoneChanging {
		t.Skip("needs the changing zone (run as a step of its own)")
	}
	base := vk.Scratch("c13z")
	n := 0
	rapid.Check(t, func(t *rapid.T) {
		n++
		dir := filepath.Join(base, strconv.Itoa(n))
		_ = os.MkdirAll(dir, 0o755)
		interval := rapid.SampledFrom([]time.Duration{time.Second, 2 * time.Second}).Draw(t, "interval")
		gap := rapid.SampledFrom([]int{140, 90, 230, 40}).Draw(t, "gapMS")
		viaAppend := rapid.Bool().Draw(t, "viaAppend")
		restartAfter := rapid.Bool().Draw(t, "restartAfterChange")
		k := 0 // the next change that is at least 2.5 s away
		for zoneBase.Add(time.Duration(k) * zoneStep).Before(time.Now().Add(2500 * time.Millisecond)) {
			k++
		}
		if k >= zoneN {
			t.Fatalf("VERIF-INCONCLUSIVE C13: the changing zone ran out of changes")
		}
		at := zoneBase.Add(time.Duration(k) * zoneStep)
		kind := "fall-back"
		if k%2 == 1 {
			kind = "spring-forward"
		}
		desc := fmt.Sprintf("zone-change %s interval=%v gap=%dms append=%v restart=%v", kind, interval, gap, viaAppend, restartAfter)
		vk.Class("zone-change:" + kind)
		app := &log.RollingFileAppender{AppenderBase: log.AppenderBase{Name: "r"}, Layout: recLayout{}, FileDir: dir, FileName: "z.log", Rotation: log.TimeRotation{Interval: interval}, MaxAge: 1000}
		time.Sleep(time.Until(at.Add(-2200 * time.Millisecond)))
		if err := app.Start(); err != nil {
			t.Fatalf("VERIF-INCONCLUSIVE C13: %v", err)
		}
		var all []rec
		restarted := false
		for seq := 0; time.Now().Before(at.Add(2400 * time.Millisecond)); seq++ {
			line := fmt.Sprintf("w0:%d:1:%08x|z\n", seq, crc32.ChecksumIEEE([]byte("z")))
			t0 := time.Now()
			if viaAppend {
				appendRecord(app, line, seq)
			} else {
				app.Write([]byte(line))
			}
			all = append(all, rec{0, seq, "z", 1, t0, time.Now()})
			time.Sleep(time.Duration(gap) * time.Millisecond)
			if restartAfter && !restarted && time.Now().After(at.Add(300*time.Millisecond)) {
				restarted = true
				app.Stop()
				if err := app.Start(); err != nil {
					t.Fatalf("VERIF-INCONCLUSIVE C13: restart: %v", err)
				}
			}
		}
		app.Stop()
		o := judge("z.log", dir, interval, all, true)
		vk.Eval()
		vk.NonTrivial(fmt.Sprintf("%s#%d", desc, k))
		vk.Sample(map[string]any{"edge_case": desc, "records": len(all), "files": o.files})
		if o.err != nil {
			p := vk.SaveCase("c13", map[string]any{"edge_case": desc, "error": o.err.Error(), "schedule_dependent": true})
			t.Fatalf("VERIF-VIOLATION C13: across a change of the local zone's UTC offset (%s at %s UTC): %v\ncase: %s (%s)", kind, at.UTC().Format("15:04:05"), o.err, desc, p)
		}
		_ = os.RemoveAll(dir)
	})
}
