// C01 - an event reaches an appender iff its level is enabled on the whole path.
//
// Generator: configurations (logger kind, level-range strings, 1-4 appender references in any
// declaration order, competing loggers) rendered to a Refresh map, and for each configuration all
// 15 entry points plus Record at generated levels.
// Oracle: reference model written from the property text (own range parser, chaining rule).
package c01

import (
	"context"
	"fmt"
	"math"
	"os"
	"path/filepath"
	"regexp"
	"sort"
	"strconv"
	"strings"
	"sync"
	"testing"
	"time"

	"github.com/go-spring/log"
	"pgregory.net/rapid"

	"verifharness/vk"
)

const rule = "generated configurations (kind x logger range x 1-4 references with range strings in random case/spacing and declaration order, equal lower bounds frequent) x all 15 entry points + Record at 6-10 levels incl. NONE, MAX, MAX-adjacent and custom codes; non-trivial = >=2 references of which one is chained or shares a lower bound AND some event accepted by one reference and rejected by another; distinct by (kind, normalised ranges, level set)"

// ---------------------------------------------------------------- levels (model side: names and codes only)

type lvl struct {
	name string
	code int
	l    log.Level
}

var (
	lvNeg    = log.RegisterLevel(-1, "NEG")
	lvLowest = log.RegisterLevel(1, "LOWEST")
	lvNotice = log.RegisterLevel(350, "notice")
	lvAlert  = log.RegisterLevel(450, "Alert")
	lvTop    = log.RegisterLevel(998, "TOP")
	lvOver   = log.RegisterLevel(1000, "OVER")
	lvSec    = log.RegisterLevel(1100, "SEC")
	lvAudit  = log.RegisterLevel(1200, "AUDIT")
	// an alias: another name for WARN's code (bounds and routing go by the code)
	lvWarning = log.RegisterLevel(400, "WARNING")
	// the ends of the code type: lower bounds more than 2^31 apart (ordering by subtraction would wrap)
	lvFloor = log.RegisterLevel(math.MinInt32, "FLOOR")
	lvDeep  = log.RegisterLevel(-2000000000, "DEEP")
	lvCeil  = log.RegisterLevel(math.MaxInt32, "CEIL")
)

var allLevels = []lvl{
	{"NONE", 0, log.NoneLevel}, {"TRACE", 100, log.TraceLevel}, {"DEBUG", 200, log.DebugLevel}, {"INFO", 300, log.InfoLevel},
	{"WARN", 400, log.WarnLevel}, {"ERROR", 500, log.ErrorLevel}, {"PANIC", 600, log.PanicLevel}, {"FATAL", 700, log.FatalLevel},
	{"MAX", 999, log.MaxLevel}, {"LOWEST", 1, lvLowest}, {"NOTICE", 350, lvNotice}, {"ALERT", 450, lvAlert}, {"TOP", 998, lvTop},
	{"NEG", -1, lvNeg}, {"OVER", 1000, lvOver}, {"SEC", 1100, lvSec}, {"AUDIT", 1200, lvAudit}, {"WARNING", 400, lvWarning},
	{"FLOOR", math.MinInt32, lvFloor}, {"DEEP", -2000000000, lvDeep}, {"CEIL", math.MaxInt32, lvCeil},
}

var builtin = allLevels[:9]

func codeOf(name string) int {
	for _, l := range allLevels {
		if l.name == strings.ToUpper(name) {
			return l.code
		}
	}
	panic("model: unknown level " + name)
}

// rng is a range as written: min name, optional max name.
type rng struct {
	Empty  bool   // written as ""
	Min    string // level name (upper case)
	HasMax bool
	Max    string
}

func (r rng) minCode() int {
	if r.Empty {
		return 0
	}
	return codeOf(r.Min)
}

// render with random case and outer whitespace
func (r rng) render(t *rapid.T, label string) string {
	if r.Empty {
		return rapid.SampledFrom([]string{"", "", " ", "\t "}).Draw(t, label+"emptyWs")
	}
	cs := func(s string, l string) string {
		switch rapid.IntRange(0, 3).Draw(t, l) {
		case 0:
			return strings.ToLower(s)
		case 1:
			return s
		case 2:
			return strings.ToUpper(s[:1]) + strings.ToLower(s[1:])
		default:
			b := []byte(strings.ToLower(s))
			for i := range b {
				if i%2 == 1 {
					b[i] -= 'a' - 'A'
				}
			}
			return string(b)
		}
	}
	s := cs(r.Min, label+"caseMin")
	if r.HasMax {
		s += "~" + cs(r.Max, label+"caseMax")
	}
	return rapid.SampledFrom([]string{"", "", "", " ", "\t"}).Draw(t, label+"wsL") + s + rapid.SampledFrom([]string{"", "", "", " ", "\n"}).Draw(t, label+"wsR")
}

func (r rng) String() string {
	if r.Empty {
		return `""`
	}
	if r.HasMax {
		return r.Min + "~" + r.Max
	}
	return r.Min
}

// bounds of the range as written (no chaining)
func (r rng) bounds() (int, int) {
	if r.Empty {
		return 0, 999
	}
	hi := 999
	if r.HasMax {
		hi = codeOf(r.Max)
	}
	return codeOf(r.Min), hi
}

func contains(lo, hi, c int) bool { return lo <= c && c < hi }

// effective applies the chaining rule of the property to the references of one logger.
func effective(refs []rng) [][2]int {
	out := make([][2]int, len(refs))
	for i, r := range refs {
		lo, hi := r.bounds()
		if r.Empty || !r.HasMax {
			// ends where the next-higher lower bound among the same logger's references begins
			next, found := 0, false
			for j, o := range refs {
				if j == i {
					continue
				}
				if m := o.minCode(); m > lo && (!found || m < next) {
					next, found = m, true
				}
			}
			if found {
				hi = next
			}
		}
		out[i] = [2]int{lo, hi}
	}
	return out
}

// ---------------------------------------------------------------- generator

var levelPool = rapid.SampledFrom([]string{"NONE", "TRACE", "DEBUG", "INFO", "WARN", "ERROR", "PANIC", "FATAL", "MAX", "LOWEST", "NOTICE", "ALERT", "TOP", "INFO", "WARN", "DEBUG", "ERROR"})

// Carve-out: for the rolling-file logger no range bound above MAX is generated. MAX is documented
// as "the upper bound for comparisons"; what a range reaching beyond it means for that logger's
// internal [min,WARN)/[WARN,max) split is not pinned down by the property. Everywhere else an
// explicit upper bound may be a user-registered level above MAX (OVER=1000, SEC=1100, AUDIT=1200):
// the range is half-open over codes like any other. Events at MAX and above MAX are always logged.
var rareLevel = rapid.SampledFrom([]string{"NEG", "NEG", "FLOOR", "DEEP"})
var overLevel = rapid.SampledFrom([]string{"AUDIT", "OVER", "SEC", "CEIL"})

// liftMax replaces, now and then, an explicit upper bound by a user-registered level above MAX.
func liftMax(t *rapid.T, label string, r rng) rng {
	if r.HasMax && rapid.IntRange(0, 5).Draw(t, label+"lift") == 0 {
		r.Max = overLevel.Draw(t, label+"over")
	}
	return r
}

func genLevelName(t *rapid.T, label string) string {
	if rapid.IntRange(0, 11).Draw(t, label+"rare") == 0 {
		return rareLevel.Draw(t, label+"r")
	}
	return levelPool.Draw(t, label)
}

func genRange(t *rapid.T, label string, minPool []string) rng {
	switch rapid.IntRange(0, 9).Draw(t, label+"shape") {
	case 0:
		return rng{Empty: true}
	case 1, 2, 3, 4, 5:
		return rng{Min: pick(t, label+"min", minPool)}
	default:
		return rng{Min: pick(t, label+"min", minPool), HasMax: true, Max: genLevelName(t, label+"max")}
	}
}

func pick(t *rapid.T, label string, pool []string) string {
	if len(pool) > 0 && rapid.IntRange(0, 3).Draw(t, label+"fromPool") > 0 {
		return rapid.SampledFrom(pool).Draw(t, label+"p")
	}
	return genLevelName(t, label)
}

type cfg struct {
	Kind     string // sync | async | console | file | rolling
	Layout   string // "" | TextLayout | JSONLayout (logger-level)
	Async    bool   // rolling only
	Separate bool   // rolling only
	Logger   rng
	Refs     []rng // sync/async only
	Target   []int // Target[i] = index of the appender reference i points at (usually i)
	Order    []int // Order[i] = configuration index of reference i
	// Conc: the events are logged by this many goroutines at once (0/1 = one after the other)
	Conc int
	// Overflowed (async only): the logger runs with the Discard policy and its buffer has overflowed
	// before the judged events are logged (which fit into the buffer: none of them is discarded)
	Overflowed bool
	// AsRoot (sync/async): the logger under test is the configured root logger (it lists no tags; the
	// test tag is served by it because nobody lists it) - a root logger is a logger like any other
	AsRoot bool
	Others int // competing loggers
	Root   bool
	Dir    string
}

// target: the appender reference i names (hand-written cases leave Target nil: r<i>).
func (c cfg) target(i int) int {
	if c.Target == nil {
		return i
	}
	return c.Target[i]
}

func genCfg(t *rapid.T) cfg {
	var c cfg
	c.Kind = rapid.SampledFrom([]string{"sync", "sync", "sync", "async", "async", "console", "file", "rolling", "rolling"}).Draw(t, "kind")
	if vk.Known("C01:refresh-panics-for-console-file-rolling-loggers") && (c.Kind == "console" || c.Kind == "file" || c.Kind == "rolling") {
		vk.Excluded("C01:refresh-panics-for-console-file-rolling-loggers")
		c.Kind = "sync"
	}
	c.Layout = rapid.SampledFrom([]string{"", "", "TextLayout", "JSONLayout"}).Draw(t, "layout")
	c.Logger = genRange(t, "logger", nil)
	if c.Kind != "rolling" {
		c.Logger = liftMax(t, "logger", c.Logger)
	}
	switch c.Kind {
	case "sync", "async":
		n := rapid.IntRange(1, 4).Draw(t, "nrefs")
		poolN := rapid.IntRange(1, 3).Draw(t, "poolN")
		var pool []string
		for i := 0; i < poolN; i++ {
			pool = append(pool, genLevelName(t, "pool"))
		}
		for i := 0; i < n; i++ {
			c.Refs = append(c.Refs, genRange(t, fmt.Sprintf("ref%d", i), pool))
		}
		for i := range c.Refs {
			c.Refs[i] = liftMax(t, fmt.Sprintf("ref%d", i), c.Refs[i])
		}
		c.Target = seq(n)
		if n >= 2 && rapid.IntRange(0, 3).Draw(t, "sameAppenderTwice") == 0 {
			// two references of the logger name the same appender, with explicit disjoint ranges
			// a~b and c~d (a < b <= c < d): the appender's levels are the union, not the hull
			names := []string{"TRACE", "DEBUG", "INFO", "NOTICE", "WARN", "ALERT", "ERROR", "PANIC", "FATAL", "TOP"}
			idx := rapid.SliceOfNDistinct(rapid.IntRange(0, len(names)-1), 4, 4, rapid.ID[int]).Draw(t, "dupBounds")
			sort.Ints(idx)
			pair := rapid.SliceOfNDistinct(rapid.IntRange(0, n-1), 2, 2, rapid.ID[int]).Draw(t, "dupRefs")
			c.Refs[pair[0]] = rng{Min: names[idx[0]], HasMax: true, Max: names[idx[1]]}
			c.Refs[pair[1]] = rng{Min: names[idx[2]], HasMax: true, Max: names[idx[3]]}
			c.Target[pair[1]] = c.Target[pair[0]]
		}
		// carve-out: an explicit "~MAX" is generated only where both readings agree
		for i := range c.Refs {
			r := &c.Refs[i]
			if r.HasMax && r.Max == "MAX" {
				lo := r.minCode()
				for j, o := range c.Refs {
					if j != i && o.minCode() > lo {
						r.Max = "TOP"
						vk.ExtraAdd("ambiguous_avoided", 1)
						break
					}
				}
			}
		}
		c.Order = rapid.Permutation(seq(n)).Draw(t, "order")
	case "rolling":
		c.Async = rapid.Bool().Draw(t, "rollingAsync")
		c.Separate = rapid.Bool().Draw(t, "separate")
	}
	c.Others = rapid.IntRange(0, 2).Draw(t, "others")
	c.Root = rapid.Bool().Draw(t, "root")
	if c.Kind == "async" {
		c.Overflowed = rapid.IntRange(0, 2).Draw(t, "overflowed") == 0
	}
	if (c.Kind == "sync" || c.Kind == "async") && rapid.IntRange(0, 4).Draw(t, "asRoot") == 0 {
		c.AsRoot, c.Root, c.Others = true, false, 2
	}
	return c
}

func seq(n int) []int {
	s := make([]int, n)
	for i := range s {
		s[i] = i
	}
	return s
}

var (
	tagA = log.RegisterTag("_c01_a")
	tagB = log.RegisterTag("_c01_b")
	tagC = log.RegisterTag("_c01_c")
	tagR = log.RegisterTag("_c01_rootonly")
)

func (c cfg) toMap(t *rapid.T) map[string]string {
	m := map[string]string{
		"enableCaller": "false", "fastCaller": "false", "bufferCap": "10KB",
		"appender.sink.type": "Rec", // at least one appender must exist
	}
	p := "logger.t."
	if c.AsRoot {
		p = "logger.root."
	} else {
		m[p+"tags"] = "_c01_a"
	}
	m[p+"level"] = c.Logger.render(t, "lg")
	if c.Layout != "" {
		m[p+"layout.type"] = c.Layout
	}
	switch c.Kind {
	case "sync", "async":
		if c.Kind == "sync" {
			m[p+"type"] = "Logger"
		} else {
			m[p+"type"] = "AsyncLogger"
			m[p+"bufferFullPolicy"] = "Block"
			m[p+"bufferSize"] = strconv.Itoa(rapid.SampledFrom([]int{100, 128, 10000}).Draw(t, "bufSize"))
			if c.Overflowed {
				m[p+"bufferFullPolicy"], m[p+"bufferSize"] = "Discard", "100"
			}
		}
		for i, r := range c.Refs {
			name := fmt.Sprintf("r%d", i)
			m["appender."+name+".type"] = "Rec"
			key := p + "appenderRef"
			if len(c.Refs) > 1 || rapid.Bool().Draw(t, "indexedSingle") {
				key += "[" + strconv.Itoa(c.Order[i]) + "]"
			}
			m[key+".ref"] = fmt.Sprintf("r%d", c.target(i))
			if !(r.Empty && rapid.Bool().Draw(t, fmt.Sprintf("omitLevel%d", i))) {
				m[key+".level"] = r.render(t, fmt.Sprintf("rf%d", i))
			}
		}
	case "console":
		m[p+"type"] = "Console"
	case "file":
		m[p+"type"] = "File"
		m[p+"fileDir"] = c.Dir
		m[p+"fileName"] = "file.log"
	case "rolling":
		m[p+"type"] = "RollingFile"
		m[p+"fileDir"] = c.Dir
		m[p+"fileName"] = "roll.log"
		m[p+"rotation"] = "h"
		m[p+"separate"] = strconv.FormatBool(c.Separate)
		m[p+"async"] = strconv.FormatBool(c.Async)
		if c.Async {
			m[p+"bufferFullPolicy"] = "Block"
			m[p+"bufferSize"] = "100"
		}
	}
	others := []string{"_c01_b", "_c01_c"}
	for i := 0; i < c.Others; i++ {
		name := fmt.Sprintf("o%d", i)
		m["appender.ro"+strconv.Itoa(i)+".type"] = "Rec"
		m["logger."+name+".type"] = "Logger"
		m["logger."+name+".tags"] = others[i]
		m["logger."+name+".appenderRef.ref"] = "ro" + strconv.Itoa(i)
	}
	if c.Root {
		m["appender.rroot.type"] = "Rec"
		m["logger.root.type"] = "Logger"
		m["logger.root.appenderRef.ref"] = "rroot"
	}
	return m
}

func (c cfg) desc() string {
	var refs []string
	for i, r := range c.Refs {
		refs = append(refs, fmt.Sprintf("#%d@%d->r%d:%s", i, c.Order[i], c.target(i), r))
	}
	return fmt.Sprintf("kind=%s layout=%q async=%v separate=%v logger=%s refs=[%s] others=%d root=%v conc=%d overflowed=%v asRoot=%v", c.Kind, c.Layout, c.Async, c.Separate, c.Logger, strings.Join(refs, " "), c.Others, c.Root, c.Conc, c.Overflowed, c.AsRoot)
}

// ---------------------------------------------------------------- events

type ev struct {
	ID    int64
	Entry string
	Level lvl
	Tag   string // a|b|c|r
}

var entryLevels = map[string]string{"Trace": "TRACE", "Tracef": "TRACE", "Debug": "DEBUG", "Debugf": "DEBUG", "Info": "INFO", "Infof": "INFO",
	"Warn": "WARN", "Warnf": "WARN", "Error": "ERROR", "Errorf": "ERROR", "Panic": "PANIC", "Panicf": "PANIC", "Fatal": "FATAL", "Fatalf": "FATAL"}

var entryOrder = []string{"Trace", "Tracef", "Debug", "Debugf", "Info", "Infof", "Warn", "Warnf", "Error", "Errorf", "Panic", "Panicf", "Fatal", "Fatalf"}

func levelByName(n string) lvl {
	for _, l := range allLevels {
		if l.name == n {
			return l
		}
	}
	panic(n)
}

func emit(e ev) {
	ctx := context.Background()
	tag := map[string]*log.Tag{"a": tagA, "b": tagB, "c": tagC, "r": tagR}[e.Tag]
	id := log.Int("id", e.ID)
	fn := func() []log.Field { return []log.Field{id} }
	switch e.Entry {
	case "Trace":
		log.Trace(ctx, tag, fn)
	case "Tracef":
		log.Tracef(ctx, tag, "id=%d", e.ID)
	case "Debug":
		log.Debug(ctx, tag, fn)
	case "Debugf":
		log.Debugf(ctx, tag, "id=%d", e.ID)
	case "Info":
		log.Info(ctx, tag, id)
	case "Infof":
		log.Infof(ctx, tag, "id=%d", e.ID)
	case "Warn":
		log.Warn(ctx, tag, id)
	case "Warnf":
		log.Warnf(ctx, tag, "id=%d", e.ID)
	case "Error":
		log.Error(ctx, tag, id)
	case "Errorf":
		log.Errorf(ctx, tag, "id=%d", e.ID)
	case "Panic":
		log.Panic(ctx, tag, id)
	case "Panicf":
		log.Panicf(ctx, tag, "id=%d", e.ID)
	case "Fatal":
		log.Fatal(ctx, tag, id)
	case "Fatalf":
		log.Fatalf(ctx, tag, "id=%d", e.ID)
	default:
		log.Record(ctx, e.Level.l, tag, 1, id)
	}
}

// ---------------------------------------------------------------- observation

type seen struct {
	ID    int64
	Level string // upper-case level name
}

var (
	textLevelRe = regexp.MustCompile(`^\[([A-Za-z]+)\]`)
	jsonLevelRe = regexp.MustCompile(`"level":"([A-Za-z]+)"`)
)

func parseLine(line []byte) seen {
	s := seen{ID: vk.IDFromLine(line)}
	if m := textLevelRe.FindSubmatch(line); m != nil {
		s.Level = strings.ToUpper(string(m[1]))
	} else if m := jsonLevelRe.FindSubmatch(line); m != nil {
		s.Level = strings.ToUpper(string(m[1]))
	}
	return s
}

func fromRec(name string) ([]seen, bool) {
	r := vk.Rec(name)
	if r == nil {
		return nil, false
	}
	var out []seen
	for _, it := range r.Items() {
		if it.Raw {
			out = append(out, parseLine(it.Bytes))
		} else {
			out = append(out, seen{ID: it.ID, Level: strings.ToUpper(it.LevelName)})
		}
	}
	return out, true
}

func fromBytes(b []byte) []seen {
	var out []seen
	for _, ln := range strings.Split(string(b), "\n") {
		if ln != "" {
			out = append(out, parseLine([]byte(ln)))
		}
	}
	return out
}

func fromFiles(dir, prefix string, exclude string) []seen {
	ents, _ := os.ReadDir(dir)
	var out []seen
	for _, e := range ents {
		if !strings.HasPrefix(e.Name(), prefix) || (exclude != "" && strings.HasPrefix(e.Name(), exclude)) {
			continue
		}
		b, _ := os.ReadFile(filepath.Join(dir, e.Name()))
		out = append(out, fromBytes(b)...)
	}
	return out
}

func compare(what string, got []seen, want map[int64]string) error {
	gotIDs := map[int64]int{}
	for _, g := range got {
		if g.ID >= 1_000_000 {
			continue // preamble and sentinel events of the overflow variant (a late sentinel may still arrive): not judged
		}
		gotIDs[g.ID]++
		w, ok := want[g.ID]
		if !ok {
			return fmt.Errorf("%s received event id=%d (level %s) that its ranges do not admit", what, g.ID, g.Level)
		}
		if g.Level != w {
			return fmt.Errorf("%s: event id=%d arrived with level %s, the entry point's level is %s", what, g.ID, g.Level, w)
		}
	}
	var ids []int64
	for id := range want {
		ids = append(ids, id)
	}
	sort.Slice(ids, func(i, j int) bool { return ids[i] < ids[j] })
	for _, id := range ids {
		if gotIDs[id] != 1 {
			return fmt.Errorf("%s received event id=%d (level %s) %d times, expected exactly once", what, id, want[id], gotIDs[id])
		}
	}
	return nil
}

// ---------------------------------------------------------------- the property

var console = &vk.Capture{}

func runCase(t vk.TB, c cfg, m map[string]string, events []ev) error {
	log.Destroy()
	vk.ResetRecs()
	console.Reset()
	log.Stdout = console
	var err error
	if p := vk.Catch(func() { err = log.Refresh(m) }); p != nil {
		log.Destroy()
		return fmt.Errorf("Refresh panicked for a valid configuration: %v", p)
	}
	if err != nil {
		log.Destroy()
		return fmt.Errorf("Refresh rejected a valid configuration: %s", firstLine(err))
	}
	var pan any
	// nothing in these configurations is slow (recording appenders, local files, Block policy
	// with a running worker): a log call or Destroy that has not returned after 30 s is stuck
	if c.Overflowed {
		if err := overflowFirst(c, events); err != nil {
			log.Destroy()
			return err
		}
	}
	done, _ := vk.Within(30*time.Second, func() {
		if c.Conc > 1 {
			var wg sync.WaitGroup
			var pmu sync.Mutex
			for g := 0; g < c.Conc; g++ {
				wg.Add(1)
				go func() {
					defer wg.Done()
					for i := g; i < len(events); i += c.Conc {
						if p := vk.Catch(func() { emit(events[i]) }); p != nil {
							pmu.Lock()
							if pan == nil {
								pan = fmt.Sprintf("logging event id=%d via %s panicked: %v", events[i].ID, events[i].Entry, p)
							}
							pmu.Unlock()
						}
					}
				}()
			}
			wg.Wait()
		}
		for _, e := range events {
			if c.Conc > 1 {
				break
			}
			if p := vk.Catch(func() { emit(e) }); p != nil && pan == nil {
				pan = fmt.Sprintf("logging event id=%d via %s panicked: %v", e.ID, e.Entry, p)
			}
		}
		if p := vk.Catch(log.Destroy); p != nil && pan == nil {
			pan = fmt.Sprintf("Destroy panicked: %v", p)
		}
	})
	if !done {
		vk.HardFail("c01-hang", map[string]any{"config": c.desc(), "map": m}, "C01: logging %d events and Destroy did not return within 30 s although no appender is slow; config: %s", len(events), c.desc())
	}
	if pan != nil {
		return fmt.Errorf("%v", pan)
	}

	// expected deliveries
	llo, lhi := c.Logger.bounds()
	switch c.Kind {
	case "sync", "async":
		eff := effective(c.Refs)
		for k := range c.Refs { // appender r<k>: the union over the references that name it
			want := map[int64]string{}
			var desc []string
			for i := range c.Refs {
				if c.target(i) != k {
					continue
				}
				desc = append(desc, fmt.Sprintf("reference %s, effective [%d,%d)", c.Refs[i], eff[i][0], eff[i][1]))
				for _, e := range events {
					if e.Tag == "a" && contains(llo, lhi, e.Level.code) && contains(eff[i][0], eff[i][1], e.Level.code) {
						want[e.ID] = e.Level.name
					}
				}
			}
			got, ok := fromRec(fmt.Sprintf("r%d", k))
			if !ok {
				if len(desc) == 0 {
					continue // an appender no reference names
				}
				return fmt.Errorf("appender r%d was never started", k)
			}
			if len(desc) == 0 {
				desc = []string{"named by no reference"}
			}
			if err := compare(fmt.Sprintf("appender r%d (%s; logger %s)", k, strings.Join(desc, " + "), c.Logger), got, want); err != nil {
				return err
			}
		}
	case "file":
		want := map[int64]string{}
		for _, e := range events {
			if e.Tag == "a" && contains(llo, lhi, e.Level.code) {
				want[e.ID] = e.Level.name
			}
		}
		if err := compare("file logger sink (logger "+c.Logger.String()+")", fromFiles(c.Dir, "file.log", ""), want); err != nil {
			return err
		}
	case "rolling":
		wantN, wantW := map[int64]string{}, map[int64]string{}
		for _, e := range events {
			if e.Tag != "a" || !contains(llo, lhi, e.Level.code) {
				continue
			}
			if c.Separate {
				if contains(llo, 400, e.Level.code) {
					wantN[e.ID] = e.Level.name
				}
				if contains(400, lhi, e.Level.code) {
					wantW[e.ID] = e.Level.name
				}
			} else {
				wantN[e.ID] = e.Level.name
			}
		}
		if err := compare("rolling-file logger normal file (logger "+c.Logger.String()+")", fromFiles(c.Dir, "roll.log.", "roll.log.wf"), wantN); err != nil {
			return err
		}
		if err := compare("rolling-file logger .wf file (logger "+c.Logger.String()+")", fromFiles(c.Dir, "roll.log.wf.", ""), wantW); err != nil {
			return err
		}
	}
	// and to no other appender
	tagOwner := map[string]string{"b": "ro0", "c": "ro1"}
	if c.Others < 2 {
		tagOwner["c"] = "root"
	}
	if c.Others < 1 {
		tagOwner["b"] = "root"
	}
	tagOwner["r"] = "root"
	owner := func(e ev) string {
		o := tagOwner[e.Tag]
		if o == "root" {
			if c.Root {
				return "rroot"
			}
			return "console"
		}
		return o
	}
	for name := range vk.AllRecs() {
		if strings.HasPrefix(name, "r") && len(name) == 2 {
			continue // checked above
		}
		want := map[int64]string{}
		for _, e := range events {
			if e.Tag != "a" && owner(e) == name && contains(0, 999, e.Level.code) {
				want[e.ID] = e.Level.name
			}
		}
		got, _ := fromRec(name)
		if err := compare("appender "+name+" of another logger", got, want); err != nil {
			return err
		}
	}
	// the console stream: the built-in console logger (tags nobody serves, no configured root)
	// and, for kind console, the logger under test
	wantCon := map[int64]string{}
	for _, e := range events {
		if e.Tag != "a" && owner(e) == "console" && contains(0, 999, e.Level.code) {
			wantCon[e.ID] = e.Level.name
		}
		if e.Tag == "a" && c.Kind == "console" && contains(llo, lhi, e.Level.code) {
			wantCon[e.ID] = e.Level.name
		}
	}
	if err := compare("console stream", fromBytes(console.Bytes()), wantCon); err != nil {
		return err
	}
	return nil
}

// overflowFirst makes the asynchronous logger's buffer overflow (every appender of the logger is
// stalled while 300 events of an admitted level arrive), lets it drain and forgets what was
// recorded: the judged events meet a logger that has discarded before.
func overflowFirst(c cfg, events []ev) error {
	llo, lhi := c.Logger.bounds()
	eff := effective(c.Refs)
	var pre *ev
	for i := range events {
		e := events[i]
		if e.Tag != "a" || e.Entry != "Record" || !contains(llo, lhi, e.Level.code) {
			continue
		}
		for k := range c.Refs {
			if contains(eff[k][0], eff[k][1], e.Level.code) {
				pre = &events[i]
			}
		}
	}
	if pre == nil {
		return nil // nothing is admitted anywhere: the buffer cannot be filled
	}
	gate := vk.NewGate()
	for k := range c.Refs {
		vk.SetBehavior(fmt.Sprintf("r%d", k), gate)
	}
	if done, _ := vk.Within(20*time.Second, func() {
		for i := 0; i < 300; i++ {
			emit(ev{ID: int64(1_000_000 + i), Entry: "Record", Level: pre.Level, Tag: "a"})
		}
	}); !done {
		close(gate.Release)
		return fmt.Errorf("VERIF-HANG a log call under the Discard policy waited for the stalled appenders")
	}
	close(gate.Release)
	// drained: the queue is FIFO, so once a sentinel event logged now has been delivered, everything
	// before it has been. (Under Discard a sentinel may itself be dropped while the queue is still
	// full: then the next one is tried.)
	drained := false
	for n, deadline := 0, time.Now().Add(30*time.Second); !drained && time.Now().Before(deadline); n++ {
		sid := int64(2_000_000 + n)
		emit(ev{ID: sid, Entry: "Record", Level: pre.Level, Tag: "a"})
		for until := time.Now().Add(25 * time.Millisecond); !drained && time.Now().Before(until); time.Sleep(500 * time.Microsecond) {
			for _, r := range vk.AllRecs() {
				for _, it := range r.Items() {
					if it.ID == sid || (it.Raw && vk.IDFromLine(it.Bytes) == sid) {
						drained = true
					}
				}
			}
		}
	}
	if !drained {
		return fmt.Errorf("VERIF-INCONCLUSIVE: the overflowed asynchronous logger did not drain within 30 s")
	}
	for k := range c.Refs {
		vk.SetBehavior(fmt.Sprintf("r%d", k), nil)
	}
	vk.ResetRecsKeepLive()
	vk.Class("async-logger-overflowed-before")
	return nil
}

func firstLine(err error) string {
	s := err.Error()
	if i := strings.IndexByte(s, '\n'); i >= 0 {
		s = s[:i]
	}
	if len(s) > 300 {
		s = s[:300]
	}
	return s
}

// shape classifies a reference set: some reference chained to a sibling, some lower bound shared,
// and some event accepted by one reference but rejected by another.
func shape(refs []rng, events []ev) (chained, equal, split bool) {
	if len(refs) < 2 {
		return
	}
	eff := effective(refs)
	for i, r := range refs {
		lo, hi := r.bounds()
		if eff[i][1] != hi {
			chained = true
		}
		for j, o := range refs {
			if j != i && o.minCode() == lo {
				equal = true
			}
		}
	}
	for _, e := range events {
		acc, rej := false, false
		for i := range refs {
			if contains(eff[i][0], eff[i][1], e.Level.code) {
				acc = true
			} else {
				rej = true
			}
		}
		if acc && rej && e.Tag == "a" {
			split = true
		}
	}
	return
}

func TestC01_Generated(t *testing.T) {
	vk.Rule(rule)
	base := vk.Scratch("c01")
	n := 0
	rapid.Check(t, func(t *rapid.T) {
		c := genCfg(t)
		n++
		c.Dir = filepath.Join(base, strconv.Itoa(n))
		if c.Kind == "file" || c.Kind == "rolling" {
			_ = os.MkdirAll(c.Dir, 0o755)
			defer os.RemoveAll(c.Dir)
		}
		m := c.toMap(t)
		// events: all 14 fixed-level entry points + Record at 6-10 levels, plus a few through other tags
		var events []ev
		id := int64(1)
		for _, ep := range entryOrder {
			events = append(events, ev{ID: id, Entry: ep, Level: levelByName(entryLevels[ep]), Tag: "a"})
			id++
		}
		nrec := rapid.IntRange(8, 12).Draw(t, "nrecord")
		must := []string{"NONE", "MAX", "TOP", "OVER", "NEG", "SEC", "FLOOR", "CEIL"}
		for i := 0; i < nrec; i++ {
			var l lvl
			if i < len(must) {
				l = levelByName(must[i])
			} else {
				l = rapid.SampledFrom(allLevels).Draw(t, "recLevel")
			}
			events = append(events, ev{ID: id, Entry: "Record", Level: l, Tag: "a"})
			id++
		}
		for _, tg := range []string{"b", "c", "r"} {
			ep := rapid.SampledFrom(entryOrder).Draw(t, "otherEntry")
			events = append(events, ev{ID: id, Entry: ep, Level: levelByName(entryLevels[ep]), Tag: tg})
			id++
		}
		events = rapid.Permutation(events).Draw(t, "eventOrder")

		// statistics
		vk.Eval()
		vk.Class("kind:" + c.Kind)
		if c.Layout != "" {
			vk.Class("logger-level-layout")
		}
		vk.Class(fmt.Sprintf("refs:%d", len(c.Refs)))
		chained, equal, split := shape(c.Refs, events)
		if chained {
			vk.Class("shape:chained")
		}
		if equal {
			vk.Class("shape:equal-lower-bound")
		}
		if (chained || equal) && split {
			var norm []string
			for _, r := range c.Refs {
				norm = append(norm, r.String())
			}
			var lv []string
			for _, e := range events {
				lv = append(lv, e.Level.name)
			}
			sort.Strings(lv)
			vk.NonTrivial(c.Kind + c.Layout + c.Logger.String() + strings.Join(norm, ",") + strings.Join(lv, ","))
		}
		if c.AsRoot {
			for i := range events {
				if events[i].Tag == "r" {
					events[i].Tag = "a" // both are served by root, which is the logger under test here
				}
			}
		}
		if err := runCase(t, c, m, events); err != nil {
			if strings.Contains(err.Error(), "VERIF-INCONCLUSIVE") {
				t.Fatalf("%v (config: %s)", err, c.desc())
			}
			t.Fatalf("VERIF-VIOLATION C01: %v\nconfig: %s", err, c.desc())
		}
		vk.Sample(map[string]any{"config": c.desc(), "events": len(events)})
	})
	log.Destroy()
}

// TestC01_Concurrent: the same configurations, the event list repeated many times with fresh ids
// and logged by 2-8 goroutines at once, each event at the level of its entry point: which appenders
// receive an event depends on the event, not on what other goroutines are logging at that moment.
func TestC01_Concurrent(t *testing.T) {
	vk.Rule(rule)
	base := vk.Scratch("c01c")
	n := 0
	rapid.Check(t, func(t *rapid.T) {
		c := genCfg(t)
		if c.Kind == "console" || c.Kind == "file" {
			c.Kind = "sync"
			if len(c.Refs) == 0 {
				c.Refs, c.Order = []rng{{Min: "INFO"}, {Min: "TRACE", HasMax: true, Max: "WARN"}}, []int{0, 1}
			}
		}
		c.Overflowed = false
		c.Conc = rapid.SampledFrom([]int{8, 4, 2, 6}).Draw(t, "goroutines")
		n++
		c.Dir = filepath.Join(base, strconv.Itoa(n))
		if c.Kind == "rolling" {
			_ = os.MkdirAll(c.Dir, 0o755)
			defer os.RemoveAll(c.Dir)
		}
		m := c.toMap(t)
		reps := rapid.SampledFrom([]int{400, 100, 1000}).Draw(t, "repetitions")
		var events []ev
		id := int64(1)
		for r := 0; r < reps; r++ {
			for _, ep := range entryOrder {
				events = append(events, ev{ID: id, Entry: ep, Level: levelByName(entryLevels[ep]), Tag: "a"})
				id++
			}
			for _, l := range []string{"NOTICE", "ALERT", "TOP", "NONE"} {
				events = append(events, ev{ID: id, Entry: "Record", Level: levelByName(l), Tag: "a"})
				id++
			}
		}
		vk.Eval()
		vk.Class("concurrent:kind:" + c.Kind)
		vk.NonTrivial(fmt.Sprintf("concurrent/%s/%d/%d", c.desc(), c.Conc, reps))
		if c.AsRoot {
			for i := range events {
				if events[i].Tag == "r" {
					events[i].Tag = "a" // both are served by root, which is the logger under test here
				}
			}
		}
		if err := runCase(t, c, m, events); err != nil {
			if strings.Contains(err.Error(), "VERIF-INCONCLUSIVE") {
				t.Fatalf("%v (config: %s)", err, c.desc())
			}
			t.Fatalf("VERIF-VIOLATION C01: %v\nconfig: %s", err, c.desc())
		}
	})
	log.Destroy()
}

// TestC01_Sweep: bounded-exhaustive sweep of all two-reference configurations over the 9 built-in
// levels with open or bounded upper ends, for the synchronous logger, with Record at 11 levels.
func TestC01_Sweep(t *testing.T) {
	vk.Rule(rule)
	shard, shards := vk.Shard()
	type opt struct{ r rng }
	var opts []rng
	for _, lo := range builtin {
		opts = append(opts, rng{Min: lo.name})
		for _, hi := range builtin {
			opts = append(opts, rng{Min: lo.name, HasMax: true, Max: hi.name})
		}
	}
	var events []ev
	for i, l := range append(append([]lvl{}, builtin...), levelByName("TOP"), levelByName("NOTICE")) {
		events = append(events, ev{ID: int64(i + 1), Entry: "Record", Level: l, Tag: "a"})
	}
	var total, nt, skipped int64
	idx := 0
	for _, a := range opts {
		for _, b := range opts {
			idx++
			if idx%shards != shard {
				continue
			}
			c := cfg{Kind: "sync", Logger: rng{Empty: true}, Refs: []rng{a, b}, Order: []int{0, 1}}
			ambiguous := false
			for i, r := range c.Refs {
				if r.HasMax && r.Max == "MAX" && c.Refs[1-i].minCode() > r.minCode() {
					ambiguous = true
				}
			}
			if ambiguous {
				skipped++
				continue
			}
			m := map[string]string{
				"enableCaller": "false", "appender.r0.type": "Rec", "appender.r1.type": "Rec",
				"logger.t.type": "Logger", "logger.t.tags": "_c01_a",
				"logger.t.appenderRef[0].ref": "r0", "logger.t.appenderRef[0].level": a.String(),
				"logger.t.appenderRef[1].ref": "r1", "logger.t.appenderRef[1].level": b.String(),
			}
			total++
			if ch, eq, sp := shape(c.Refs, events); (ch || eq) && sp {
				nt++
			}
			if err := runCase(t, c, m, events); err != nil {
				p := vk.SaveCase("c01-sweep", map[string]any{"ref0": a.String(), "ref1": b.String(), "error": err.Error()})
				t.Fatalf("VERIF-VIOLATION C01 sweep: %v\nconfig: %s (case %s)", err, c.desc(), p)
			}
		}
	}
	space := "all ordered pairs of appender references (lower bound over the 9 built-in levels, upper end open or one of the 9) on a synchronous logger x Record at 11 levels"
	vk.EvalN(total)
	vk.NonTrivialBulk(space, nt)
	vk.ExtraAdd("ambiguous_avoided", skipped)
	vk.Exhaustive(space, true)
	vk.Sample(map[string]any{"space": space, "example": "refs INFO and INFO~ERROR; Record at NONE..MAX, TOP, NOTICE"})
	log.Destroy()
}

// TestRegress_C01: shrunk failures found before the fix: commits, as plain cases.
func TestRegress_C01(t *testing.T) {
	base := vk.Scratch("c01r")
	var events []ev
	id := int64(1)
	for _, ep := range entryOrder {
		events = append(events, ev{ID: id, Entry: ep, Level: levelByName(entryLevels[ep]), Tag: "a"})
		id++
	}
	events = append(events, ev{ID: id, Entry: "Record", Level: levelByName("NONE"), Tag: "a"}, ev{ID: id + 1, Entry: "Record", Level: levelByName("TOP"), Tag: "a"})
	cases := []cfg{
		{Kind: "sync", Logger: rng{Empty: true}, Refs: []rng{{Min: "NONE"}, {Min: "NONE"}}, Order: []int{0, 1}}, // equal lower bounds
		{Kind: "sync", Logger: rng{Empty: true}, Refs: []rng{{Empty: true}, {Empty: true}, {Min: "INFO", HasMax: true, Max: "ERROR"}}, Order: []int{2, 0, 1}},
		{Kind: "console", Logger: rng{Empty: true}}, // Refresh panicked
		{Kind: "file", Logger: rng{Min: "INFO"}},
		{Kind: "rolling", Logger: rng{Empty: true}}, // nil layout
		{Kind: "rolling", Logger: rng{Min: "DEBUG"}, Separate: true, Layout: "JSONLayout"},
		{Kind: "rolling", Logger: rng{Empty: true}, Async: true}, // inner async logger never started
		{Kind: "rolling", Logger: rng{Empty: true}, Async: true, Separate: true},
	}
	for i, c := range cases {
		c.Dir = filepath.Join(base, strconv.Itoa(i))
		_ = os.MkdirAll(c.Dir, 0o755)
		var m map[string]string
		// render through a throw-away rapid run with a fixed seed: plain deterministic draws
		m = renderFixed(c)
		vk.Eval()
		if err := runCase(t, c, m, events); err != nil {
			t.Fatalf("VERIF-VIOLATION C01 regress: %v\nconfig: %s", err, c.desc())
		}
	}
	log.Destroy()
}

// renderFixed renders a configuration without random spelling (upper-case names, no spacing).
func renderFixed(c cfg) map[string]string {
	m := map[string]string{"enableCaller": "false", "fastCaller": "false", "bufferCap": "10KB", "appender.sink.type": "Rec"}
	p := "logger.t."
	m[p+"tags"] = "_c01_a"
	lv := func(r rng) string {
		if r.Empty {
			return ""
		}
		return r.String()
	}
	m[p+"level"] = lv(c.Logger)
	if c.Layout != "" {
		m[p+"layout.type"] = c.Layout
	}
	switch c.Kind {
	case "sync":
		m[p+"type"] = "Logger"
		for i, r := range c.Refs {
			name := fmt.Sprintf("r%d", i)
			m["appender."+name+".type"] = "Rec"
			key := fmt.Sprintf("%sappenderRef[%d]", p, c.Order[i])
			m[key+".ref"] = name
			m[key+".level"] = lv(r)
		}
	case "console":
		m[p+"type"] = "Console"
	case "file":
		m[p+"type"] = "File"
		m[p+"fileDir"] = c.Dir
		m[p+"fileName"] = "file.log"
	case "rolling":
		m[p+"type"] = "RollingFile"
		m[p+"fileDir"] = c.Dir
		m[p+"fileName"] = "roll.log"
		m[p+"rotation"] = "h"
		m[p+"separate"] = strconv.FormatBool(c.Separate)
		m[p+"async"] = strconv.FormatBool(c.Async)
		if c.Async {
			m[p+"bufferFullPolicy"] = "Block"
			m[p+"bufferSize"] = "100"
		}
	}
	return m
}
