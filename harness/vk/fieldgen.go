package vk

import (
	"encoding/base64"
	"encoding/json"
	"errors"
	"fmt"
	"math"
	"sort"
	"strconv"
	"strings"
	"time"

	"github.com/go-spring/log"
	"pgregory.net/rapid"
)

// EV is the expected decoded value of one logged value, built from the generator's own knowledge
// of what was logged (never from the library's output).
type EV struct {
	K       byte // 'n' null, 'b' bool, 'i' integer (exact text), 'f' finite float (bits), 's' string, 'a' array, 'o' object, 'x' any JSON string (non-finite float / unmarshallable)
	B       bool
	Txt     string
	Bits    uint64
	S       string // raw input string (compared after Sanitize)
	Items   []EV
	Members []EM
}

// EM is an expected object member. Unquote tells the text-layout oracle that the top-level token
// is shown without its quotes (string fields, error texts, non-finite floats).
type EM struct {
	Key     string
	Val     EV
	Unquote bool
}

func evNull() EV         { return EV{K: 'n'} }
func evBool(b bool) EV   { return EV{K: 'b', B: b} }
func evInt(v int64) EV   { return EV{K: 'i', Txt: strconv.FormatInt(v, 10)} }
func evUint(v uint64) EV { return EV{K: 'i', Txt: strconv.FormatUint(v, 10)} }
func evStr(s string) EV  { return EV{K: 's', S: s} }
func evFloat(v float64) EV {
	if math.IsNaN(v) || math.IsInf(v, 0) {
		return EV{K: 'x'}
	}
	return EV{K: 'f', Bits: math.Float64bits(v)}
}

// FieldStat counts the shapes a generated field list contains (for the non-triviality rules).
type FieldStat struct {
	Fields               int
	ContainerAfterScalar int
	ContainerAfterEmpty  int
	Escaping             int
	BoundaryNum          int
	NonFinite            int
	Unmarshallable       int
	Nested               int
	MaxDepth             int
	Kinds                map[string]int
}

func (s *FieldStat) NonTrivial() bool {
	return s.ContainerAfterScalar > 0 || s.ContainerAfterEmpty > 0 || s.Escaping > 0 || s.BoundaryNum > 0
}

// FieldCase is a generated field list with its expected decoding.
type FieldCase struct {
	Fields []log.Field
	Exp    []EM
	Desc   []string
}

type fgen struct {
	t    *rapid.T
	st   *FieldStat
	opts FieldOpts
}

// FieldOpts restricts the generator where a property's wording requires it.
type FieldOpts struct {
	NoNonFinite bool // exclude NaN/Inf (known finding excluded by construction)
}

var simpleKey = rapid.StringMatching(`[a-z][a-z0-9_]{0,7}`)

var hostileStrings = []string{"", " ", "a b", "k\"q", "back\\slash", "line\nbreak", "cr\rlf\n", "tab\t", "nul\x00", "\x1f", "\x7f", "\xff", "\xc0\x80",
	"\xed\xa0\x80", "\xf4\x90\x80\x80", "\xe2\x82", "é", "日本", "\U0001F600", " ", "�", "||", "=", "a=b||c", "{", "}", "[", "]", ",", ":", "\"", "\\",
	"\\u0041", "\u2029", "\u2028\u2029", "para\u2029graph", "\u0085", "\ufeff", "msg", "level", "time", "fileLine", "tag", "ctxString", "<script>&", "null", "true", "1e5", "NaN",
	// text that is itself escaped text: what encoding/json writes for &, <, > and the separators, spelled out as six characters
	"\\u0026", "\\u003c", "\\u003e", "a\\u0026b=1", "\\\\u003c", "\\u2028", "\\n", "\\\"", "\\/", "&", "<", ">", "a&b<c>d"}

func (g *fgen) str(label string) string {
	var s string
	switch rapid.IntRange(0, 9).Draw(g.t, label+"K") {
	case 0, 1, 2, 3:
		s = rapid.StringMatching(`[a-zA-Z0-9 _.-]{0,12}`).Draw(g.t, label)
	case 4, 5:
		s = rapid.SampledFrom(hostileStrings).Draw(g.t, label)
	case 6:
		s = string(rapid.SliceOfN(rapid.Byte(), 0, 10).Draw(g.t, label))
	case 7:
		s = rapid.String().Draw(g.t, label)
	case 8:
		s = rapid.SampledFrom(hostileStrings).Draw(g.t, label+"a") + rapid.StringMatching(`[a-z]{0,4}`).Draw(g.t, label+"b") + rapid.SampledFrom(hostileStrings).Draw(g.t, label+"c")
	default:
		n := rapid.IntRange(50, 3000).Draw(g.t, label+"len")
		s = strings.Repeat(rapid.SampledFrom([]string{"x", "é", "\"", "\n", "ab"}).Draw(g.t, label+"unit"), n)
	}
	if _, needs := Sanitize(nil, []byte(s)); needs {
		g.st.Escaping++
	}
	return s
}

func (g *fgen) key(label string) string {
	if rapid.IntRange(0, 2).Draw(g.t, label+"simple") > 0 {
		return simpleKey.Draw(g.t, label)
	}
	return g.str(label)
}

var boundaryInts = []int64{0, 1, -1, math.MaxInt64, math.MinInt64, math.MaxInt32, math.MinInt32, math.MaxInt32 + 1, 127, -128, 128, 255, 256, 32767, -32768, 65535, 1 << 53, 1<<53 + 1, -(1 << 53) - 1, 999999999999999999}
var boundaryUints = []uint64{0, 1, math.MaxUint64, math.MaxInt64, math.MaxInt64 + 1, math.MaxUint32, math.MaxUint32 + 1, 255, 256, 65535, 65536, 1 << 53, 1<<53 + 1, 18446744073709551614}
var boundaryFloats = []float64{0, math.Copysign(0, -1), 1, -1, 0.1, 0.5, 1.5, math.SmallestNonzeroFloat64, -math.SmallestNonzeroFloat64, math.MaxFloat64, -math.MaxFloat64,
	math.MaxFloat32, math.SmallestNonzeroFloat32, 1e21, 1e20, 1e-7, 1e-6, 123456789.125, 2.2250738585072014e-308, 2.225073858507201e-308, 9007199254740993, 4.35, 1e308, 1.7976931348623157e308,
	math.NaN(), math.Inf(1), math.Inf(-1)}

func (g *fgen) i64(label string) int64 {
	if rapid.Bool().Draw(g.t, label+"B") {
		g.st.BoundaryNum++
		return rapid.SampledFrom(boundaryInts).Draw(g.t, label)
	}
	return rapid.Int64().Draw(g.t, label)
}

func (g *fgen) u64(label string) uint64 {
	if rapid.Bool().Draw(g.t, label+"B") {
		g.st.BoundaryNum++
		return rapid.SampledFrom(boundaryUints).Draw(g.t, label)
	}
	return rapid.Uint64().Draw(g.t, label)
}

func (g *fgen) f64(label string) float64 {
	var v float64
	if rapid.Bool().Draw(g.t, label+"B") {
		g.st.BoundaryNum++
		v = rapid.SampledFrom(boundaryFloats).Draw(g.t, label)
	} else {
		v = rapid.Float64().Draw(g.t, label)
	}
	if math.IsNaN(v) || math.IsInf(v, 0) {
		if g.opts.NoNonFinite {
			return 0
		}
		g.st.NonFinite++
	}
	return v
}

// ---------------------------------------------------------------- custom ArrayValue

// AVal is a value emitted through the Encoder interface by a harness ArrayValue.
type AVal struct {
	K       byte // 'b','i','u','f','s','n','a','o'
	B       bool
	I       int64
	U       uint64
	F       float64
	S       string
	Items   []AVal
	Keys    []string
	Members []AVal
}

type arrVal []AVal

func (a arrVal) EncodeArray(enc log.Encoder) {
	for _, v := range a {
		emitAVal(enc, v)
	}
}

func emitAVal(enc log.Encoder, v AVal) {
	switch v.K {
	case 'b':
		enc.AppendBool(v.B)
	case 'i':
		enc.AppendInt64(v.I)
	case 'u':
		enc.AppendUint64(v.U)
	case 'f':
		enc.AppendFloat64(v.F)
	case 's':
		enc.AppendString(v.S)
	case 'n':
		enc.AppendReflect(nil)
	case 'a':
		enc.AppendArrayBegin()
		for _, c := range v.Items {
			emitAVal(enc, c)
		}
		enc.AppendArrayEnd()
	case 'o':
		enc.AppendObjectBegin()
		for i, c := range v.Members {
			enc.AppendKey(v.Keys[i])
			emitAVal(enc, c)
		}
		enc.AppendObjectEnd()
	}
}

func (g *fgen) aval(depth int) (AVal, EV) {
	k := rapid.IntRange(0, 9).Draw(g.t, "avk")
	if depth >= 3 && k >= 7 {
		k = 0
	}
	switch k {
	case 0:
		b := rapid.Bool().Draw(g.t, "avb")
		return AVal{K: 'b', B: b}, evBool(b)
	case 1, 2:
		v := g.i64("avi")
		return AVal{K: 'i', I: v}, evInt(v)
	case 3:
		v := g.u64("avu")
		return AVal{K: 'u', U: v}, evUint(v)
	case 4:
		v := g.f64("avf")
		return AVal{K: 'f', F: v}, evFloat(v)
	case 5:
		s := g.str("avs")
		return AVal{K: 's', S: s}, evStr(s)
	case 6:
		return AVal{K: 'n'}, evNull()
	case 7, 8:
		n := rapid.IntRange(0, 3).Draw(g.t, "avan")
		av := AVal{K: 'a'}
		ev := EV{K: 'a'}
		for i := 0; i < n; i++ {
			c, e := g.aval(depth + 1)
			av.Items = append(av.Items, c)
			ev.Items = append(ev.Items, e)
		}
		g.st.Nested++
		return av, ev
	default:
		n := rapid.IntRange(0, 3).Draw(g.t, "avon")
		av := AVal{K: 'o'}
		ev := EV{K: 'o'}
		for i := 0; i < n; i++ {
			key := g.key("avok")
			c, e := g.aval(depth + 1)
			av.Keys = append(av.Keys, key)
			av.Members = append(av.Members, c)
			ev.Members = append(ev.Members, EM{Key: key, Val: e})
		}
		g.st.Nested++
		return av, ev
	}
}

// ---------------------------------------------------------------- reflect zoo

type ZooA struct {
	A int
	B string `json:"b"`
	C []int
	D *int
	E bool `json:"e,omitempty"`
	f int
}

type ZooBad struct {
	Ch chan int
}

// ZooEnum and ZooMasked are named scalar types that customise their JSON form.
type ZooEnum int

func (z ZooEnum) MarshalText() ([]byte, error) { return []byte("enum-" + strconv.Itoa(int(z))), nil }

type ZooMasked string

func (z ZooMasked) MarshalJSON() ([]byte, error) { return []byte(`"***"`), nil }

// ZooErr fails to marshal with a caller-chosen error text (which the encoders must still turn
// into a valid JSON string).
type ZooErr struct{ Msg string }

func (z ZooErr) MarshalJSON() ([]byte, error) { return nil, errors.New(z.Msg) }

// zoo draws a value for Reflect. forAny: the value is passed to log.Any, which dispatches
// []int, []float64, string, ... to typed constructors - those members are left out so that the
// expectation really is "the default (reflect) arm".
func (g *fgen) zoo(forAny bool) (any, EV, string) {
	z := rapid.IntRange(0, 19).Draw(g.t, "zoo")
	if forAny && (z == 6 || z == 8 || z == 12) {
		z = 2
	}
	switch z {
	case 0: // map[string]int
		n := rapid.IntRange(0, 4).Draw(g.t, "zmn")
		m := map[string]int{}
		for i := 0; i < n; i++ {
			m[simpleKey.Draw(g.t, "zmk")] = rapid.IntRange(-1000, 1000).Draw(g.t, "zmv")
		}
		keys := make([]string, 0, len(m))
		for k := range m {
			keys = append(keys, k)
		}
		sort.Strings(keys)
		ev := EV{K: 'o'}
		for _, k := range keys {
			ev.Members = append(ev.Members, EM{Key: k, Val: evInt(int64(m[k]))})
		}
		return m, ev, fmt.Sprintf("map[string]int%v", m)
	case 1: // []any mix
		s := g.str("zas")
		i := g.i64("zai")
		b := rapid.Bool().Draw(g.t, "zab")
		v := []any{i, s, nil, b, []any{}, map[string]any{"k": s}}
		ev := EV{K: 'a', Items: []EV{evInt(i), evStr(s), evNull(), evBool(b), {K: 'a'}, {K: 'o', Members: []EM{{Key: "k", Val: evStr(s)}}}}}
		return v, ev, fmt.Sprintf("[]any{%d,%q,nil,%v,[]any{},map{k:%q}}", i, s, b, s)
	case 2: // struct
		a := rapid.IntRange(-5, 5).Draw(g.t, "zsa")
		s := g.str("zsb")
		var c []int
		cev := evNull()
		if rapid.Bool().Draw(g.t, "zsc") {
			c = []int{a, a + 1}
			cev = EV{K: 'a', Items: []EV{evInt(int64(a)), evInt(int64(a + 1))}}
		}
		var d *int
		dev := evNull()
		if rapid.Bool().Draw(g.t, "zsd") {
			d = &a
			dev = evInt(int64(a))
		}
		e := rapid.Bool().Draw(g.t, "zse")
		ev := EV{K: 'o', Members: []EM{{Key: "A", Val: evInt(int64(a))}, {Key: "b", Val: evStr(s)}, {Key: "C", Val: cev}, {Key: "D", Val: dev}}}
		if e {
			ev.Members = append(ev.Members, EM{Key: "e", Val: evBool(true)})
		}
		z := ZooA{A: a, B: s, C: c, D: d, E: e, f: 7}
		if rapid.Bool().Draw(g.t, "zsptr") {
			return &z, ev, fmt.Sprintf("&ZooA{%d,%q,%v,%v,%v}", a, s, c, d != nil, e)
		}
		return z, ev, fmt.Sprintf("ZooA{%d,%q,%v,%v,%v}", a, s, c, d != nil, e)
	case 3:
		return (*ZooA)(nil), evNull(), "(*ZooA)(nil)"
	case 4:
		return (*int)(nil), evNull(), "(*int)(nil)"
	case 5:
		return map[string]int(nil), evNull(), "map[string]int(nil)"
	case 6:
		return []int(nil), evNull(), "[]int(nil)"
	case 7:
		d := g.i64("zdur")
		return time.Duration(d), evInt(d), fmt.Sprintf("time.Duration(%d)", d)
	case 8:
		g.st.Unmarshallable++
		return []float64{1, math.NaN()}, EV{K: 'x'}, "[]float64{1,NaN} (unmarshallable)"
	case 9:
		g.st.Unmarshallable++
		return make(chan int), EV{K: 'x'}, "chan int (unmarshallable)"
	case 10:
		g.st.Unmarshallable++
		return func() {}, EV{K: 'x'}, "func() (unmarshallable)"
	case 11:
		g.st.Unmarshallable++
		if rapid.Bool().Draw(g.t, "zooErrText") {
			msg := g.str("zerr")
			return ZooErr{Msg: msg}, EV{K: 'x'}, fmt.Sprintf("ZooErr{%q} (MarshalJSON fails with that text)", msg)
		}
		return ZooBad{}, EV{K: 'x'}, "struct{chan} (unmarshallable)"
	case 12:
		s := g.str("zstr")
		return s, evStr(s), fmt.Sprintf("string(%q) via reflect", s)
	case 13:
		b := rapid.SliceOfN(rapid.Byte(), 0, 9).Draw(g.t, "zbytes")
		type myBytes []byte // not []uint8 by name, still marshals as base64
		return myBytes(b), evStr(base64.StdEncoding.EncodeToString(b)), fmt.Sprintf("myBytes(%x) -> base64", b)
	case 14:
		return errors.New("boom"), EV{K: 'o'}, "errors.New (marshals as {})"
	case 17: // a named integer type that marshals as text (an enum)
		n := rapid.IntRange(0, 9).Draw(g.t, "zenum")
		return ZooEnum(n), evStr("enum-" + strconv.Itoa(n)), fmt.Sprintf("ZooEnum(%d) (MarshalText)", n)
	case 18: // a named string type that masks its content when marshalled
		return ZooMasked(g.str("zmask")), evStr("***"), "ZooMasked (MarshalJSON masks the content)"
	case 19: // json.Number keeps its number form
		n := rapid.IntRange(-99999, 99999).Draw(g.t, "znum")
		return json.Number(strconv.Itoa(n) + ".5"), evFloat(float64(n) + map[bool]float64{true: 0.5, false: -0.5}[n >= 0]), fmt.Sprintf("json.Number(%d.5)", n)
	case 16:
		// a json.RawMessage as it comes out of json.Encoder / MarshalIndent or an HTTP body: valid
		// JSON with insignificant white space, line feeds included. The record is still one line.
		a := g.i64("zra")
		ws := func(l string) string {
			return rapid.SampledFrom([]string{"", " ", "\n", "\n  ", "\t", "\r\n"}).Draw(g.t, l)
		}
		raw := "{" + ws("zw1") + `"a"` + ws("zw2") + ":" + ws("zw3") + strconv.FormatInt(a, 10) + "," + ws("zw4") + `"b"` + ":" + ws("zw5") + "[" + ws("zw6") + "1," + ws("zw7") + `"s"` + ws("zw8") + "]" + ws("zw9") + "}" + rapid.SampledFrom([]string{"", "\n", " \n"}).Draw(g.t, "zwEnd")
		ev := EV{K: 'o', Members: []EM{{Key: "a", Val: evInt(a)}, {Key: "b", Val: EV{K: 'a', Items: []EV{evInt(1), evStr("s")}}}}}
		return json.RawMessage(raw), ev, fmt.Sprintf("json.RawMessage(%q)", raw)
	default:
		a, b := g.i64("zi1"), g.f64("zf1")
		if math.IsNaN(b) || math.IsInf(b, 0) {
			g.st.Unmarshallable++
			return map[string]any{"i": a, "f": b}, EV{K: 'x'}, "map with non-finite float (unmarshallable)"
		}
		return map[string]any{"i": a, "f": b}, EV{K: 'o', Members: []EM{{Key: "f", Val: evFloat(b)}, {Key: "i", Val: evInt(a)}}}, fmt.Sprintf("map{i:%d,f:%v}", a, b)
	}
}

// ---------------------------------------------------------------- Any dispatch arms

func ptr[T any](v T) *T { return &v }

// anyValue draws a Go value for one of log.Any's dispatch arms and its expectation.
func (g *fgen) anyValue() (any, EV, bool, string) {
	arm := rapid.IntRange(0, 46).Draw(g.t, "arm")
	isNil := rapid.IntRange(0, 3).Draw(g.t, "armnil") == 0
	slice := func(n int) int { return rapid.IntRange(0, n).Draw(g.t, "armlen") }
	intArm := func(w int, kind int) (any, EV, bool, string) {
		// kind 0 value, 1 pointer, 2 slice
		conv := func(v int64) (any, any, int64) {
			switch w {
			case 0:
				return int(v), ptr(int(v)), int64(int(v))
			case 8:
				return int8(v), ptr(int8(v)), int64(int8(v))
			case 16:
				return int16(v), ptr(int16(v)), int64(int16(v))
			case 32:
				return int32(v), ptr(int32(v)), int64(int32(v))
			default:
				return v, ptr(v), v
			}
		}
		switch kind {
		case 0:
			v, _, e := conv(g.i64("armi"))
			return v, evInt(e), false, fmt.Sprintf("int%d(%d)", w, e)
		case 1:
			if isNil {
				switch w {
				case 0:
					return (*int)(nil), evNull(), false, "(*int)(nil)"
				case 8:
					return (*int8)(nil), evNull(), false, "(*int8)(nil)"
				case 16:
					return (*int16)(nil), evNull(), false, "(*int16)(nil)"
				case 32:
					return (*int32)(nil), evNull(), false, "(*int32)(nil)"
				default:
					return (*int64)(nil), evNull(), false, "(*int64)(nil)"
				}
			}
			_, p, e := conv(g.i64("armi"))
			return p, evInt(e), false, fmt.Sprintf("*int%d(%d)", w, e)
		default:
			n := slice(4)
			ev := EV{K: 'a'}
			vals := make([]int64, n)
			for i := range vals {
				_, _, vals[i] = conv(g.i64("armi"))
				ev.Items = append(ev.Items, evInt(vals[i]))
			}
			g.st.Nested++
			var out any
			switch w {
			case 0:
				s := make([]int, n)
				for i, v := range vals {
					s[i] = int(v)
				}
				out = s
			case 8:
				s := make([]int8, n)
				for i, v := range vals {
					s[i] = int8(v)
				}
				out = s
			case 16:
				s := make([]int16, n)
				for i, v := range vals {
					s[i] = int16(v)
				}
				out = s
			case 32:
				s := make([]int32, n)
				for i, v := range vals {
					s[i] = int32(v)
				}
				out = s
			default:
				out = vals
			}
			return out, ev, false, fmt.Sprintf("[]int%d%v", w, vals)
		}
	}
	uintArm := func(w int, kind int) (any, EV, bool, string) {
		conv := func(v uint64) (any, any, uint64) {
			switch w {
			case 0:
				return uint(v), ptr(uint(v)), uint64(uint(v))
			case 8:
				return uint8(v), ptr(uint8(v)), uint64(uint8(v))
			case 16:
				return uint16(v), ptr(uint16(v)), uint64(uint16(v))
			case 32:
				return uint32(v), ptr(uint32(v)), uint64(uint32(v))
			default:
				return v, ptr(v), v
			}
		}
		switch kind {
		case 0:
			v, _, e := conv(g.u64("armu"))
			return v, evUint(e), false, fmt.Sprintf("uint%d(%d)", w, e)
		case 1:
			if isNil {
				switch w {
				case 0:
					return (*uint)(nil), evNull(), false, "(*uint)(nil)"
				case 8:
					return (*uint8)(nil), evNull(), false, "(*uint8)(nil)"
				case 16:
					return (*uint16)(nil), evNull(), false, "(*uint16)(nil)"
				case 32:
					return (*uint32)(nil), evNull(), false, "(*uint32)(nil)"
				default:
					return (*uint64)(nil), evNull(), false, "(*uint64)(nil)"
				}
			}
			_, p, e := conv(g.u64("armu"))
			return p, evUint(e), false, fmt.Sprintf("*uint%d(%d)", w, e)
		default:
			n := slice(4)
			ev := EV{K: 'a'}
			vals := make([]uint64, n)
			for i := range vals {
				_, _, vals[i] = conv(g.u64("armu"))
				ev.Items = append(ev.Items, evUint(vals[i]))
			}
			g.st.Nested++
			var out any
			switch w {
			case 0:
				s := make([]uint, n)
				for i, v := range vals {
					s[i] = uint(v)
				}
				out = s
			case 8:
				s := make([]uint8, n)
				for i, v := range vals {
					s[i] = uint8(v)
				}
				out = s
			case 16:
				s := make([]uint16, n)
				for i, v := range vals {
					s[i] = uint16(v)
				}
				out = s
			case 32:
				s := make([]uint32, n)
				for i, v := range vals {
					s[i] = uint32(v)
				}
				out = s
			default:
				out = vals
			}
			return out, ev, false, fmt.Sprintf("[]uint%d%v", w, vals)
		}
	}
	widths := []int{0, 8, 16, 32, 64}
	switch {
	case arm == 0:
		return nil, evNull(), false, "nil"
	case arm == 1:
		b := rapid.Bool().Draw(g.t, "armb")
		return b, evBool(b), false, fmt.Sprint(b)
	case arm == 2:
		if isNil {
			return (*bool)(nil), evNull(), false, "(*bool)(nil)"
		}
		b := rapid.Bool().Draw(g.t, "armb")
		return &b, evBool(b), false, fmt.Sprintf("*bool(%v)", b)
	case arm == 3:
		bs := rapid.SliceOfN(rapid.Bool(), 0, 4).Draw(g.t, "armbs")
		ev := EV{K: 'a'}
		for _, b := range bs {
			ev.Items = append(ev.Items, evBool(b))
		}
		g.st.Nested++
		return bs, ev, false, fmt.Sprintf("[]bool%v", bs)
	case arm >= 4 && arm <= 18:
		return intArm(widths[(arm-4)/3], (arm-4)%3)
	case arm >= 19 && arm <= 33:
		return uintArm(widths[(arm-19)/3], (arm-19)%3)
	case arm >= 34 && arm <= 39:
		f32 := arm < 37
		kind := (arm - 34) % 3
		mk := func() (float64, EV) {
			v := g.f64("armf")
			if f32 {
				v = float64(float32(v))
				if math.IsInf(v, 0) && g.opts.NoNonFinite {
					v = 0
				}
			}
			return v, evFloat(v)
		}
		switch kind {
		case 0:
			v, ev := mk()
			if f32 {
				return float32(v), ev, ev.K == 'x', fmt.Sprintf("float32(%v)", v)
			}
			return v, ev, ev.K == 'x', fmt.Sprintf("float64(%v)", v)
		case 1:
			if isNil {
				if f32 {
					return (*float32)(nil), evNull(), false, "(*float32)(nil)"
				}
				return (*float64)(nil), evNull(), false, "(*float64)(nil)"
			}
			v, ev := mk()
			if f32 {
				return ptr(float32(v)), ev, ev.K == 'x', fmt.Sprintf("*float32(%v)", v)
			}
			return &v, ev, ev.K == 'x', fmt.Sprintf("*float64(%v)", v)
		default:
			n := slice(4)
			ev := EV{K: 'a'}
			vals := make([]float64, n)
			for i := range vals {
				var e EV
				vals[i], e = mk()
				ev.Items = append(ev.Items, e)
			}
			g.st.Nested++
			if f32 {
				s := make([]float32, n)
				for i, v := range vals {
					s[i] = float32(v)
				}
				return s, ev, false, fmt.Sprintf("[]float32%v", vals)
			}
			return vals, ev, false, fmt.Sprintf("[]float64%v", vals)
		}
	case arm == 40:
		s := g.str("arms")
		return s, evStr(s), true, fmt.Sprintf("string(%q)", s)
	case arm == 41:
		if isNil {
			return (*string)(nil), evNull(), false, "(*string)(nil)"
		}
		s := g.str("arms")
		return &s, evStr(s), true, fmt.Sprintf("*string(%q)", s)
	case arm == 42:
		n := slice(4)
		ss := make([]string, n)
		ev := EV{K: 'a'}
		for i := range ss {
			ss[i] = g.str("armss")
			ev.Items = append(ev.Items, evStr(ss[i]))
		}
		g.st.Nested++
		return ss, ev, false, fmt.Sprintf("[]string%q", ss)
	default: // default arm -> Reflect
		v, ev, d := g.zoo(true)
		return v, ev, ev.K == 'x', "reflect:" + d
	}
}

// ---------------------------------------------------------------- top-level constructors

func isContainerKind(ev EV) bool { return ev.K == 'a' || ev.K == 'o' }

func (g *fgen) one(depth int) (log.Field, []EM, string) {
	k := rapid.IntRange(0, 27).Draw(g.t, "ctor")
	if depth >= 4 && (k == 24 || k == 25) {
		k = 0
	}
	key := g.key("key")
	one := func(f log.Field, ev EV, unq bool, desc string) (log.Field, []EM, string) {
		return f, []EM{{Key: key, Val: ev, Unquote: unq}}, desc
	}
	kind := func(name string) {
		if g.st.Kinds == nil {
			g.st.Kinds = map[string]int{}
		}
		g.st.Kinds[name]++
	}
	w := rapid.SampledFrom([]int{0, 8, 16, 32, 64}).Draw(g.t, "width")
	switch k {
	case 0:
		kind("Bool")
		b := rapid.Bool().Draw(g.t, "b")
		return one(log.Bool(key, b), evBool(b), false, fmt.Sprintf("Bool(%q,%v)", key, b))
	case 1:
		kind("BoolPtr")
		if rapid.Bool().Draw(g.t, "nil") {
			return one(log.BoolPtr(key, nil), evNull(), false, fmt.Sprintf("BoolPtr(%q,nil)", key))
		}
		b := rapid.Bool().Draw(g.t, "b")
		return one(log.BoolPtr(key, &b), evBool(b), false, fmt.Sprintf("BoolPtr(%q,&%v)", key, b))
	case 2:
		kind("Int")
		v := g.i64("i")
		switch w {
		case 0:
			return one(log.Int(key, int(v)), evInt(int64(int(v))), false, fmt.Sprintf("Int[int](%q,%d)", key, int(v)))
		case 8:
			return one(log.Int(key, int8(v)), evInt(int64(int8(v))), false, fmt.Sprintf("Int[int8](%q,%d)", key, int8(v)))
		case 16:
			return one(log.Int(key, int16(v)), evInt(int64(int16(v))), false, fmt.Sprintf("Int[int16](%q,%d)", key, int16(v)))
		case 32:
			return one(log.Int(key, int32(v)), evInt(int64(int32(v))), false, fmt.Sprintf("Int[int32](%q,%d)", key, int32(v)))
		}
		return one(log.Int(key, v), evInt(v), false, fmt.Sprintf("Int[int64](%q,%d)", key, v))
	case 3:
		kind("IntPtr")
		if rapid.Bool().Draw(g.t, "nil") {
			return one(log.IntPtr[int32](key, nil), evNull(), false, fmt.Sprintf("IntPtr[int32](%q,nil)", key))
		}
		v := g.i64("i")
		if w == 16 {
			x := int16(v)
			return one(log.IntPtr(key, &x), evInt(int64(x)), false, fmt.Sprintf("IntPtr[int16](%q,&%d)", key, x))
		}
		return one(log.IntPtr(key, &v), evInt(v), false, fmt.Sprintf("IntPtr[int64](%q,&%d)", key, v))
	case 4:
		kind("Uint")
		v := g.u64("u")
		switch w {
		case 0:
			return one(log.Uint(key, uint(v)), evUint(uint64(uint(v))), false, fmt.Sprintf("Uint[uint](%q,%d)", key, uint(v)))
		case 8:
			return one(log.Uint(key, uint8(v)), evUint(uint64(uint8(v))), false, fmt.Sprintf("Uint[uint8](%q,%d)", key, uint8(v)))
		case 16:
			return one(log.Uint(key, uint16(v)), evUint(uint64(uint16(v))), false, fmt.Sprintf("Uint[uint16](%q,%d)", key, uint16(v)))
		case 32:
			return one(log.Uint(key, uint32(v)), evUint(uint64(uint32(v))), false, fmt.Sprintf("Uint[uint32](%q,%d)", key, uint32(v)))
		}
		return one(log.Uint(key, v), evUint(v), false, fmt.Sprintf("Uint[uint64](%q,%d)", key, v))
	case 5:
		kind("UintPtr")
		if rapid.Bool().Draw(g.t, "nil") {
			return one(log.UintPtr[uint8](key, nil), evNull(), false, fmt.Sprintf("UintPtr[uint8](%q,nil)", key))
		}
		v := g.u64("u")
		return one(log.UintPtr(key, &v), evUint(v), false, fmt.Sprintf("UintPtr[uint64](%q,&%d)", key, v))
	case 6:
		kind("Float")
		v := g.f64("f")
		if w == 32 {
			x := float32(v)
			if math.IsInf(float64(x), 0) && g.opts.NoNonFinite {
				x = 0
			}
			ev := evFloat(float64(x))
			return one(log.Float(key, x), ev, ev.K == 'x', fmt.Sprintf("Float[float32](%q,%v)", key, x))
		}
		ev := evFloat(v)
		return one(log.Float(key, v), ev, ev.K == 'x', fmt.Sprintf("Float[float64](%q,%v)", key, v))
	case 7:
		kind("FloatPtr")
		if rapid.Bool().Draw(g.t, "nil") {
			return one(log.FloatPtr[float64](key, nil), evNull(), false, fmt.Sprintf("FloatPtr(%q,nil)", key))
		}
		v := g.f64("f")
		ev := evFloat(v)
		return one(log.FloatPtr(key, &v), ev, ev.K == 'x', fmt.Sprintf("FloatPtr(%q,&%v)", key, v))
	case 8, 9:
		kind("String")
		s := g.str("s")
		return one(log.String(key, s), evStr(s), true, fmt.Sprintf("String(%q,%q)", key, s))
	case 10:
		kind("StringPtr")
		if rapid.Bool().Draw(g.t, "nil") {
			return one(log.StringPtr(key, nil), evNull(), false, fmt.Sprintf("StringPtr(%q,nil)", key))
		}
		s := g.str("s")
		return one(log.StringPtr(key, &s), evStr(s), true, fmt.Sprintf("StringPtr(%q,&%q)", key, s))
	case 11:
		kind("Msg")
		s := g.str("s")
		return log.Msg(s), []EM{{Key: "msg", Val: evStr(s), Unquote: true}}, fmt.Sprintf("Msg(%q)", s)
	case 12:
		kind("Msgf")
		s := g.str("s")
		n := rapid.IntRange(-9, 9).Draw(g.t, "n")
		return log.Msgf("%s-%d", s, n), []EM{{Key: "msg", Val: evStr(s + "-" + strconv.Itoa(n)), Unquote: true}}, fmt.Sprintf("Msgf(%%s-%%d,%q,%d)", s, n)
	case 13:
		kind("Nil")
		return one(log.Nil(key), evNull(), false, fmt.Sprintf("Nil(%q)", key))
	case 14, 15:
		kind("Reflect")
		v, ev, d := g.zoo(false)
		if isContainerKind(ev) {
			g.st.Nested++
		}
		return one(log.Reflect(key, v), ev, ev.K == 'x', fmt.Sprintf("Reflect(%q,%s)", key, d))
	case 16:
		kind("Bools")
		var bs []bool
		if rapid.IntRange(0, 4).Draw(g.t, "nilslice") > 0 {
			bs = rapid.SliceOfN(rapid.Bool(), 0, 5).Draw(g.t, "bs")
		}
		ev := EV{K: 'a'}
		for _, b := range bs {
			ev.Items = append(ev.Items, evBool(b))
		}
		g.st.Nested++
		return one(log.Bools(key, bs), ev, false, fmt.Sprintf("Bools(%q,%v)", key, bs))
	case 17:
		kind("Ints")
		n := rapid.IntRange(0, 5).Draw(g.t, "n")
		ev := EV{K: 'a'}
		if w == 8 {
			s := make([]int8, n)
			for i := range s {
				s[i] = int8(g.i64("i"))
				ev.Items = append(ev.Items, evInt(int64(s[i])))
			}
			g.st.Nested++
			return one(log.Ints(key, s), ev, false, fmt.Sprintf("Ints[int8](%q,%v)", key, s))
		}
		s := make([]int64, n)
		for i := range s {
			s[i] = g.i64("i")
			ev.Items = append(ev.Items, evInt(s[i]))
		}
		g.st.Nested++
		if n == 0 && rapid.Bool().Draw(g.t, "nilslice") {
			s = nil
		}
		return one(log.Ints(key, s), ev, false, fmt.Sprintf("Ints[int64](%q,%v)", key, s))
	case 18:
		kind("Uints")
		n := rapid.IntRange(0, 5).Draw(g.t, "n")
		ev := EV{K: 'a'}
		s := make([]uint64, n)
		for i := range s {
			s[i] = g.u64("u")
			ev.Items = append(ev.Items, evUint(s[i]))
		}
		g.st.Nested++
		return one(log.Uints(key, s), ev, false, fmt.Sprintf("Uints(%q,%v)", key, s))
	case 19:
		kind("Floats")
		n := rapid.IntRange(0, 5).Draw(g.t, "n")
		ev := EV{K: 'a'}
		if w == 32 {
			s := make([]float32, n)
			for i := range s {
				s[i] = float32(g.f64("f"))
				if math.IsInf(float64(s[i]), 0) && g.opts.NoNonFinite {
					s[i] = 0
				}
				ev.Items = append(ev.Items, evFloat(float64(s[i])))
			}
			g.st.Nested++
			return one(log.Floats(key, s), ev, false, fmt.Sprintf("Floats[float32](%q,%v)", key, s))
		}
		s := make([]float64, n)
		for i := range s {
			s[i] = g.f64("f")
			ev.Items = append(ev.Items, evFloat(s[i]))
		}
		g.st.Nested++
		return one(log.Floats(key, s), ev, false, fmt.Sprintf("Floats(%q,%v)", key, s))
	case 20:
		kind("Strings")
		n := rapid.IntRange(0, 4).Draw(g.t, "n")
		ev := EV{K: 'a'}
		s := make([]string, n)
		for i := range s {
			s[i] = g.str("s")
			ev.Items = append(ev.Items, evStr(s[i]))
		}
		g.st.Nested++
		if n == 0 && rapid.Bool().Draw(g.t, "nilslice") {
			s = nil
		}
		return one(log.Strings(key, s), ev, false, fmt.Sprintf("Strings(%q,%q)", key, s))
	case 21, 22:
		kind("Array")
		n := rapid.IntRange(0, 4).Draw(g.t, "n")
		var av arrVal
		ev := EV{K: 'a'}
		for i := 0; i < n; i++ {
			c, e := g.aval(depth)
			av = append(av, c)
			ev.Items = append(ev.Items, e)
		}
		g.st.Nested++
		if n == 0 && rapid.IntRange(0, 3).Draw(g.t, "nilArray") == 0 {
			// no value at all: nil is logged as null, whatever the constructor
			return one(log.Array(key, nil), evNull(), false, fmt.Sprintf("Array(%q,nil)", key))
		}
		return one(log.Array(key, av), ev, false, fmt.Sprintf("Array(%q,custom %s)", key, evDesc(ev)))
	case 23:
		kind("Any")
		v, ev, unq, d := g.anyValue()
		return one(log.Any(key, v), ev, unq, fmt.Sprintf("Any(%q,%s)", key, d))
	case 24:
		kind("Object")
		sub := g.list(rapid.IntRange(0, 4).Draw(g.t, "objn"), depth+1)
		g.st.Nested++
		if depth+1 > g.st.MaxDepth {
			g.st.MaxDepth = depth + 1
		}
		if depth == 1 && rapid.IntRange(0, 19).Draw(g.t, "deep") == 0 {
			// the same object at the bottom of a tower of objects: depth is a number like any other
			// (around the sizes of the small integer types, among others)
			d := rapid.SampledFrom([]int{127, 126, 128, 129, 40, 255, 256, 300, 125}).Draw(g.t, "tower")
			f := log.Object("leaf", sub.Fields...)
			ev := EV{K: 'o', Members: sub.Exp}
			name := "leaf"
			for i := 0; i < d; i++ {
				ev = EV{K: 'o', Members: []EM{{Key: name, Val: ev}, {Key: "s", Val: evInt(int64(i))}}}
				f = log.Object("n", f, log.Int("s", i))
				name = "n"
			}
			ev = EV{K: 'o', Members: []EM{{Key: name, Val: ev}}}
			g.st.MaxDepth = max(g.st.MaxDepth, d)
			Class(fmt.Sprintf("object-tower:%d", d))
			return one(log.Object(key, f), ev, false, fmt.Sprintf("Object(%q, tower of %d objects over {%s})", key, d, strings.Join(sub.Desc, "; ")))
		}
		return one(log.Object(key, sub.Fields...), EV{K: 'o', Members: sub.Exp}, false, fmt.Sprintf("Object(%q,{%s})", key, strings.Join(sub.Desc, "; ")))
	case 25:
		kind("FieldsFromMap")
		n := rapid.IntRange(0, 4).Draw(g.t, "mapn")
		m := map[string]any{}
		exp := map[string]EM{}
		var descs []string
		for i := 0; i < n; i++ {
			mk := g.key("mapk")
			v, ev, unq, d := g.anyValue()
			m[mk] = v
			exp[mk] = EM{Key: mk, Val: ev, Unquote: unq}
			descs = append(descs, fmt.Sprintf("%q:%s", mk, d))
		}
		keys := make([]string, 0, len(m))
		for mk := range m {
			keys = append(keys, mk)
		}
		sort.Strings(keys)
		var ems []EM
		for _, mk := range keys {
			ems = append(ems, exp[mk])
		}
		if rapid.IntRange(0, 5).Draw(g.t, "nilmap") == 0 && n == 0 {
			m = nil
		}
		return log.FieldsFromMap(m), ems, fmt.Sprintf("FieldsFromMap{%s}", strings.Join(descs, ", "))
	default:
		kind("Any")
		v, ev, unq, d := g.anyValue()
		return one(log.Any(key, v), ev, unq, fmt.Sprintf("Any(%q,%s)", key, d))
	}
}

func evDesc(ev EV) string {
	switch ev.K {
	case 'n':
		return "null"
	case 'b':
		return fmt.Sprint(ev.B)
	case 'i':
		return ev.Txt
	case 'f':
		return strconv.FormatFloat(math.Float64frombits(ev.Bits), 'g', -1, 64)
	case 's':
		return fmt.Sprintf("%q", ev.S)
	case 'x':
		return "<json-string>"
	case 'a':
		var parts []string
		for _, c := range ev.Items {
			parts = append(parts, evDesc(c))
		}
		return "[" + strings.Join(parts, ",") + "]"
	default:
		var parts []string
		for _, m := range ev.Members {
			parts = append(parts, fmt.Sprintf("%q:%s", m.Key, evDesc(m.Val)))
		}
		return "{" + strings.Join(parts, ",") + "}"
	}
}

func (g *fgen) list(n int, depth int) FieldCase {
	var fc FieldCase
	prevScalar, prevEmpty := false, false
	for i := 0; i < n; i++ {
		f, ems, d := g.one(depth)
		fc.Fields = append(fc.Fields, f)
		fc.Exp = append(fc.Exp, ems...)
		fc.Desc = append(fc.Desc, d)
		g.st.Fields++
		for _, em := range ems {
			cont := isContainerKind(em.Val)
			if cont && prevScalar {
				g.st.ContainerAfterScalar++
			}
			if cont && prevEmpty {
				g.st.ContainerAfterEmpty++
			}
			prevScalar = !cont
			prevEmpty = cont && len(em.Val.Items) == 0 && len(em.Val.Members) == 0
		}
	}
	return fc
}

// GenFieldList draws a field list of up to maxN top-level fields.
func GenFieldList(t *rapid.T, label string, maxN int, st *FieldStat, opts FieldOpts) FieldCase {
	g := &fgen{t: t, st: st, opts: opts}
	n := rapid.IntRange(0, maxN).Draw(t, label+"N")
	return g.list(n, 1)
}

// ---------------------------------------------------------------- comparison

// CompareEV checks a decoded node against the expectation. path is for messages.
func CompareEV(path string, ev EV, n *Node) error {
	bad := func(what string) error {
		return fmt.Errorf("%s: %s: expected %s, decoded %s", path, what, evDesc(ev), n.String())
	}
	switch ev.K {
	case 'n':
		if n.Kind != 'n' {
			return bad("not null")
		}
	case 'b':
		if n.Kind != 'b' || n.Bool != ev.B {
			return bad("bool mismatch")
		}
	case 'i':
		if n.Kind != '#' || n.Num != ev.Txt {
			return bad("integer not exact")
		}
	case 'f':
		if n.Kind != '#' {
			return bad("finite float is not a JSON number")
		}
		v, err := strconv.ParseFloat(n.Num, 64)
		if err != nil || math.Float64bits(v) != ev.Bits {
			return bad("float not bit-exact")
		}
	case 's':
		if n.Kind != 's' || n.Str != SanitizeString(ev.S) {
			return bad("string mismatch")
		}
	case 'x':
		if n.Kind != 's' {
			return bad("non-finite float / unmarshallable value must be a JSON string")
		}
	case 'a':
		if n.Kind != 'a' || len(n.Items) != len(ev.Items) {
			return bad("array shape")
		}
		for i := range ev.Items {
			if err := CompareEV(fmt.Sprintf("%s[%d]", path, i), ev.Items[i], n.Items[i]); err != nil {
				return err
			}
		}
	case 'o':
		if n.Kind != 'o' {
			return bad("not an object")
		}
		return CompareMembers(path, ev.Members, n.Members)
	}
	return nil
}

// CompareMembers checks ordered members (duplicates preserved).
func CompareMembers(path string, exp []EM, got []Member) error {
	if len(exp) != len(got) {
		var ek, gk []string
		for _, e := range exp {
			ek = append(ek, SanitizeString(e.Key))
		}
		for _, m := range got {
			gk = append(gk, m.Key)
		}
		return fmt.Errorf("%s: expected %d members %q, decoded %d members %q", path, len(exp), ek, len(got), gk)
	}
	for i := range exp {
		if got[i].Key != SanitizeString(exp[i].Key) {
			return fmt.Errorf("%s: member %d has key %q, expected %q", path, i, got[i].Key, SanitizeString(exp[i].Key))
		}
		if err := CompareEV(fmt.Sprintf("%s.%q", path, got[i].Key), exp[i].Val, got[i].Val); err != nil {
			return err
		}
	}
	return nil
}

// ExpFileLine is the independent implementation of the documented truncation rule:
// longer than W => "..." + last max(W-3,0) bytes, otherwise in full.
func ExpFileLine(file string, line int, w int) string {
	fl := file + ":" + strconv.Itoa(line)
	if len(fl) <= w {
		return fl
	}
	keep := w - 3
	if keep < 0 {
		keep = 0
	}
	return "..." + fl[len(fl)-keep:]
}

// ExpTime renders yyyy-MM-ddTHH:mm:ss.SSS from the calendar fields (millisecond truncation).
func ExpTime(t time.Time) string {
	y, mo, d := t.Date()
	h, mi, s := t.Clock()
	return fmt.Sprintf("%04d-%02d-%02dT%02d:%02d:%02d.%03d", y, int(mo), d, h, mi, s, t.Nanosecond()/1e6)
}
