// C11 - the reported file:line is the caller's statement, in both caller-lookup modes.
//
// The call sites are *generated programs* (c11/gen): every site evaluates runtime.Caller on the
// same source line as the log call, so the expectation never depends on the harness knowing line
// numbers. rapid then drives sequences of {set lookup mode, visit site i} with repeated visits
// (frame-cache hits) and mode flips.
package c11

import (
	"context"
	"fmt"
	"reflect"
	"runtime"
	"strings"
	"sync"
	"sync/atomic"
	"testing"
	"time"

	"github.com/go-spring/log"
	"pgregory.net/rapid"

	"verifharness/vk"
)

const rule = "generated call-site programs (15 entry points x shapes: plain, closure, closure argument, deferred closure, deferred in loop, goroutine, nested closure/goroutine/defer, function value, method, method value, generic helper, inlinable and noinline helpers, Record with skip 2/3 through inlinable/noinline wrappers) x sequences of {default|fast lookup, caller on|off, visit site i}; non-trivial = a fast-mode visit of a site already visited in fast mode (cache hit) or any non-plain shape; distinct by (program seed, site, mode, revisit)"

type site struct {
	ID    int
	Shape string
	Entry string
	Fn    func(*siteCtx)
}

type expect struct {
	id   int
	file string
	line int
}

type siteCtx struct {
	ctx context.Context
	tag *log.Tag
	exp []expect
	n   int
}

// wantFunc records the expectation "entry line of fn + off" (for helpers too small to carry a want call).
func (c *siteCtx) wantFunc(id int, fn func(*siteCtx), off int) {
	pc := reflect.ValueOf(fn).Pointer()
	f := runtime.FuncForPC(pc)
	file, line := f.FileLine(f.Entry())
	c.exp = append(c.exp, expect{id, file, line + off})
}

// counterG and bump: argument-less inlinable code, so that the instruction right after a log
// call's return address can belong to an inlined body.
var counterG int

func bump() { counterG++ }

type pos struct {
	file string
	line int
}

// wantEmpty: the call names a frame that does not exist (skip beyond the stack).
func (c *siteCtx) wantEmpty(id int) { c.exp = append(c.exp, expect{id, "", 0}) }

func (c *siteCtx) want(id int, p pos) { c.exp = append(c.exp, expect{id, p.file, p.line}) }

// here returns the source position of its caller's statement.
func here() pos {
	_, f, l, _ := runtime.Caller(1)
	return pos{f, l}
}

func apply(f func()) { f() }

type program struct {
	prefix string
	seed   int64
	sites  []site
}

var programs []program

func registerSites(prefix string, seed int64, s []site) {
	programs = append(programs, program{prefix, seed, s})
}

var tag = log.RegisterTag("_c11_t")

func configure(fast, enable bool) error {
	log.Destroy()
	vk.ResetRecs()
	return log.Refresh(map[string]string{
		"enableCaller": fmt.Sprint(enable), "fastCaller": fmt.Sprint(fast),
		"appender.rec.type": "Rec", "logger.l.type": "Logger", "logger.l.tags": "_c11_t", "logger.l.appenderRef.ref": "rec",
	})
}

// rejectedThenPlain: a Refresh that is rejected because of an ill-typed caller option, then a valid
// Refresh that does not mention the caller options at all. The options are sticky process
// settings: a rejected configuration must leave them as they validly were.
//
// which 0/1: the option itself is ill-typed. which 2: both options are well-typed and say the
// opposite of the current modes, but the configuration is rejected for another reason (a dangling
// appender reference) - a configuration that is not accepted changes nothing.
func rejectedThenPlain(bad string, which int, fast, enable bool) error {
	log.Destroy()
	vk.ResetRecs()
	m := map[string]string{"appender.rec.type": "Rec", "logger.l.type": "Logger", "logger.l.tags": "_c11_t", "logger.l.appenderRef.ref": "rec"}
	if which == 2 {
		m["enableCaller"], m["fastCaller"] = fmt.Sprint(!enable), fmt.Sprint(!fast)
		m["logger.l.appenderRef.ref"] = "ghost"
		bad = "(dangling reference)"
	} else {
		m[[]string{"enableCaller", "fastCaller"}[which]] = bad
	}
	if err := log.Refresh(m); err == nil {
		log.Destroy()
		return fmt.Errorf("Refresh accepted a configuration with %s=%q", []string{"enableCaller", "fastCaller", "a fault"}[which], bad)
	}
	log.Destroy()
	vk.ResetRecs()
	return log.Refresh(map[string]string{"appender.rec.type": "Rec", "logger.l.type": "Logger", "logger.l.tags": "_c11_t", "logger.l.appenderRef.ref": "rec"})
}

func visit(p program, s site, fast, enable bool) error {
	c := &siteCtx{ctx: context.Background(), tag: tag}
	r := vk.Rec("rec")
	r.Clear()
	s.Fn(c)
	items := r.Items()
	if len(items) != len(c.exp) || len(items) == 0 {
		return fmt.Errorf("site %d (%s/%s): %d events recorded, %d expected", s.ID, s.Shape, s.Entry, len(items), len(c.exp))
	}
	for i, it := range items {
		e := c.exp[i]
		if int(it.ID) != e.id {
			return fmt.Errorf("site %d (%s/%s): event #%d has id %d, expected %d", s.ID, s.Shape, s.Entry, i, it.ID, e.id)
		}
		if !enable {
			if it.File != "" || it.Line != 0 {
				return fmt.Errorf("site %d (%s/%s): caller lookup is disabled but the record carries %s:%d", s.ID, s.Shape, s.Entry, short(it.File), it.Line)
			}
			continue
		}
		if it.File != e.file || it.Line != e.line {
			mode := "default"
			if fast {
				mode = "fast"
			}
			return fmt.Errorf("site %d (%s/%s) in %s lookup mode: record says %s:%d, the calling statement is at %s:%d", s.ID, s.Shape, s.Entry, mode, short(it.File), it.Line, short(e.file), e.line)
		}
	}
	return nil
}

func short(f string) string {
	if i := strings.LastIndex(f, "/"); i >= 0 {
		return f[i+1:]
	}
	return f
}

func TestC11_Sites(t *testing.T) {
	vk.Rule(rule)
	if len(programs) == 0 {
		t.Fatalf("VERIF-INCONCLUSIVE C11: no generated call-site program is linked in")
	}
	vk.Extra("programs", len(programs))
	defer log.Destroy()
	for _, p := range programs {
		visitedFast := map[int]bool{}
		rapid.Check(t, func(t *rapid.T) {
			fast := rapid.Bool().Draw(t, "fast")
			enable := rapid.SampledFrom([]bool{true, true, true, false}).Draw(t, "enableCaller")
			if fast && enable && vk.Known("C11:fast-caller-off-by-one") {
				vk.Excluded("C11:fast-caller-off-by-one")
				fast = false
			}
			if err := configure(fast, enable); err != nil {
				t.Fatalf("VERIF-INCONCLUSIVE C11: Refresh failed: %v", err)
			}
			n := rapid.IntRange(1, 25).Draw(t, "nsteps")
			var seq []string
			for i := 0; i < n; i++ {
				if rapid.IntRange(0, 5).Draw(t, "flip") == 0 {
					fast = rapid.Bool().Draw(t, "fast2")
					enable = rapid.SampledFrom([]bool{true, true, false}).Draw(t, "enable2")
					if fast && enable && vk.Known("C11:fast-caller-off-by-one") {
						fast = false
					}
					if err := configure(fast, enable); err != nil {
						t.Fatalf("VERIF-INCONCLUSIVE C11: Refresh failed: %v", err)
					}
					seq = append(seq, fmt.Sprintf("mode(fast=%v,caller=%v)", fast, enable))
				}
				if rapid.IntRange(0, 11).Draw(t, "rejected") == 0 {
					bad := rapid.SampledFrom([]string{"yes", "on", "2", "enabled", ""}).Draw(t, "badValue")
					which := rapid.IntRange(0, 2).Draw(t, "badOption")
					if bad == "" {
						bad = "maybe"
					}
					if err := rejectedThenPlain(bad, which, fast, enable); err != nil {
						t.Fatalf("VERIF-VIOLATION C11: %v\nprogram seed %d, steps: %s", err, p.seed, strings.Join(seq, " "))
					}
					seq = append(seq, fmt.Sprintf("rejected(%d=%s)+plain-refresh", which, bad))
					vk.Class("after-rejected-caller-option")
				}
				var s site
				if i > 0 && rapid.IntRange(0, 2).Draw(t, "revisit") == 0 {
					s = p.sites[rapid.IntRange(0, min(len(p.sites), 12)-1).Draw(t, "hotSite")]
				} else {
					s = p.sites[rapid.IntRange(0, len(p.sites)-1).Draw(t, "site")]
				}
				seq = append(seq, fmt.Sprintf("%d:%s/%s", s.ID, s.Shape, s.Entry))
				vk.Eval()
				vk.Class("shape:" + s.Shape)
				if fast && enable {
					vk.Class("mode:fast")
				} else if enable {
					vk.Class("mode:default")
				} else {
					vk.Class("mode:caller-off")
				}
				hit := fast && enable && visitedFast[s.ID]
				if hit {
					vk.Class("fast-cache-hit")
				}
				if hit || s.Shape != "plain" {
					vk.NonTrivial(fmt.Sprintf("%s/%d/%v/%v/%v", p.prefix, s.ID, fast, enable, hit))
				}
				if fast && enable {
					visitedFast[s.ID] = true
				}
				if err := visit(p, s, fast, enable); err != nil {
					t.Fatalf("VERIF-VIOLATION C11: %v\nprogram seed %d, steps: %s", err, p.seed, strings.Join(seq, " "))
				}
			}
			vk.Sample(map[string]any{"program_seed": p.seed, "steps": strings.Join(seq, " ")})
		})
	}
}

// TestC11_ManySites: in fast mode every call site of every linked program (more than a thousand
// distinct ones) is visited, then all of them again in a generated order: a site's cached location
// must still be its own however many other sites were resolved in between.
func TestC11_ManySites(t *testing.T) {
	vk.Rule(rule)
	defer log.Destroy()
	type ps struct {
		p program
		s site
	}
	var all []ps
	for _, p := range programs {
		for _, s := range p.sites {
			all = append(all, ps{p, s})
		}
	}
	vk.Extra("distinct_sites_swept", len(all))
	rapid.Check(t, func(t *rapid.T) {
		if err := configure(true, true); err != nil {
			t.Fatalf("VERIF-INCONCLUSIVE C11: Refresh failed: %v", err)
		}
		first := rapid.IntRange(0, len(all)-1).Draw(t, "rotate")
		for i := range all {
			x := all[(first+i)%len(all)]
			vk.Eval()
			if err := visit(x.p, x.s, true, true); err != nil {
				t.Fatalf("VERIF-VIOLATION C11: first sweep: %v", err)
			}
		}
		order := rapid.Permutation(seqN(len(all))).Draw(t, "order")
		for n, i := range order {
			x := all[i]
			vk.Eval()
			if err := visit(x.p, x.s, true, true); err != nil {
				t.Fatalf("VERIF-VIOLATION C11: after %d other call sites had been resolved: %v", len(all)+n, err)
			}
		}
		vk.NonTrivial(fmt.Sprintf("sweep/%d/%d", first, order[0]))
	})
}

func seqN(n int) []int {
	s := make([]int, n)
	for i := range s {
		s[i] = i
	}
	return s
}

// TestRegress_C11: shrunk failure found before the fix: commit - the first site of the committed
// seed-1 program in fast mode reported log.go:205.
func TestRegress_C11(t *testing.T) {
	if len(programs) == 0 {
		t.Skip("no program")
	}
	defer log.Destroy()
	for _, mode := range []struct{ fast, enable bool }{{true, true}, {false, true}, {true, false}, {true, true}} {
		if err := configure(mode.fast, mode.enable); err != nil {
			t.Fatalf("VERIF-INCONCLUSIVE C11: %v", err)
		}
		for _, s := range programs[0].sites[:40] {
			vk.Eval()
			if err := visit(programs[0], s, mode.fast, mode.enable); err != nil {
				t.Fatalf("VERIF-VIOLATION C11 regress: %v", err)
			}
		}
	}
}

// TestC11_Concurrent: the same sites visited from many goroutines at once in fast lookup mode
// (the frame cache is shared state): every record must still carry its own site's position.
func TestC11_Concurrent(t *testing.T) {
	vk.Rule(rule)
	if len(programs) == 0 {
		t.Skip("no program")
	}
	defer log.Destroy()
	for _, p := range programs {
		// expected position per site id, learnt sequentially in default mode
		if err := configure(false, true); err != nil {
			t.Fatalf("VERIF-INCONCLUSIVE C11: %v", err)
		}
		want := map[int]expect{}
		var plain []site
		for _, s := range p.sites {
			if s.Shape == "goroutine" || s.Shape == "nested" {
				continue // they spawn their own goroutines; keep the fan-out bounded
			}
			c := &siteCtx{ctx: context.Background(), tag: tag}
			s.Fn(c)
			for _, e := range c.exp {
				want[e.id] = e
			}
			plain = append(plain, s)
		}
		for _, fast := range []bool{true, false} {
			if fast && vk.Known("C11:fast-caller-off-by-one") {
				continue
			}
			if err := configure(fast, true); err != nil {
				t.Fatalf("VERIF-INCONCLUSIVE C11: %v", err)
			}
			r := vk.Rec("rec")
			const G = 8
			if fast {
				// cold start: every site is reached for the first time by all goroutines in the same
				// instant (a spinning barrier per site) - the moment a lookup cache is filled is
				// the moment it can hand out a half-made entry
				var arrived atomic.Int64
				var cwg sync.WaitGroup
				for g := 0; g < G; g++ {
					cwg.Add(1)
					go func() {
						defer cwg.Done()
						c := &siteCtx{ctx: context.Background(), tag: tag}
						for k, s := range plain {
							arrived.Add(1)
							for arrived.Load() < int64(G*(k+1)) {
							}
							c.exp = c.exp[:0]
							s.Fn(c)
						}
					}()
				}
				cwg.Wait()
				vk.Class("concurrent:cold-start")
			}
			rounds := 3000
			if vk.Thorough() {
				rounds = 40000
			}
			var wg sync.WaitGroup
			for g := 0; g < G; g++ {
				wg.Add(1)
				go func() {
					defer wg.Done()
					c := &siteCtx{ctx: context.Background(), tag: tag}
					for i := 0; i < rounds; i++ {
						s := plain[(g*7919+i*31)%len(plain)]
						c.exp = c.exp[:0]
						s.Fn(c)
					}
				}()
			}
			wg.Wait()
			items := r.Items()
			vk.EvalN(int64(len(items)))
			vk.Class(fmt.Sprintf("concurrent:fast=%v", fast))
			vk.NonTrivial(fmt.Sprintf("concurrent/%s/%v", p.prefix, fast))
			for _, it := range items {
				e, ok := want[int(it.ID)]
				if !ok || it.File != e.file || it.Line != e.line {
					t.Fatalf("VERIF-VIOLATION C11: under concurrent logging (fast=%v) the record of site id=%d says %s:%d, its calling statement is at %s:%d", fast, it.ID, short(it.File), it.Line, short(e.file), e.line)
				}
			}
		}
	}
}

// TestC11_Saturated: the location of a record does not depend on what kind of logger serves the
// tag, nor on the state that logger is in. Each site is called while the tag is served by an
// asynchronous logger whose buffer is full (the appender behind it is held), under every
// buffer-full policy and through the rolling-file logger's asynchronous mode as well; whatever
// is delivered after the appender is released must carry the location of its calling statement.
// (Which events are delivered is C06's business; here only delivered events are judged, and the
// check demands that at least the events accepted before the buffer filled up arrive.)
func TestC11_Saturated(t *testing.T) {
	vk.Rule(rule)
	if len(programs) == 0 {
		t.Skip("no program")
	}
	defer log.Destroy()
	p := programs[0]
	if err := configure(false, true); err != nil {
		t.Fatalf("VERIF-INCONCLUSIVE C11: %v", err)
	}
	want := map[int]expect{}
	var plain []site
	for _, s := range p.sites {
		if s.Shape == "goroutine" || s.Shape == "nested" {
			continue // the held appender would hold their goroutines too
		}
		c := &siteCtx{ctx: context.Background(), tag: tag}
		s.Fn(c)
		for _, e := range c.exp {
			want[e.id] = e
		}
		plain = append(plain, s)
	}
	rapid.Check(t, func(t *rapid.T) {
		policy := rapid.SampledFrom([]string{"DiscardOldest", "Discard", "Block"}).Draw(t, "policy")
		fast := rapid.Bool().Draw(t, "fast")
		enable := rapid.IntRange(0, 4).Draw(t, "enable") != 0
		size := rapid.SampledFrom([]int{100, 101, 128}).Draw(t, "size")
		calls := rapid.IntRange(size+5, size+150).Draw(t, "calls")
		if policy == "Block" {
			calls = rapid.IntRange(20, size-2).Draw(t, "callsBlock") // never fills: a blocked caller would wait for the held appender
		}
		first := rapid.IntRange(0, len(plain)-1).Draw(t, "first")
		if fast && vk.Known("C11:fast-caller-off-by-one") {
			fast = false
		}
		log.Destroy()
		vk.ResetRecs()
		gate := vk.NewGate()
		vk.SetBehavior("rec", gate)
		if err := log.Refresh(map[string]string{
			"enableCaller": fmt.Sprint(enable), "fastCaller": fmt.Sprint(fast),
			"appender.rec.type": "Rec", "logger.l.type": "AsyncLogger", "logger.l.tags": "_c11_t",
			"logger.l.bufferSize": fmt.Sprint(size), "logger.l.bufferFullPolicy": policy, "logger.l.appenderRef.ref": "rec",
		}); err != nil {
			t.Fatalf("VERIF-INCONCLUSIVE C11: %v", err)
		}
		vk.Eval()
		vk.Class(fmt.Sprintf("saturated:%s:fast=%v:caller=%v", policy, fast, enable))
		made := 0
		c := &siteCtx{ctx: context.Background(), tag: tag}
		for i := 0; made < calls; i++ {
			s := plain[(first+i)%len(plain)]
			c.exp = c.exp[:0]
			s.Fn(c)
			made += len(c.exp)
		}
		for i := 0; i < made+10; i++ {
			gate.Release <- struct{}{}
		}
		if done, _ := vk.Within(30*time.Second, log.Destroy); !done {
			vk.HardFail("TestC11_Saturated", map[string]any{"policy": policy, "size": size, "calls": calls}, "C11: Destroy did not return after the held appender was released")
		}
		var items []vk.Item
		for _, r := range vk.AllRecs() {
			items = append(items, r.Items()...)
		}
		vk.SetBehavior("rec", nil)
		if len(items) < min(made, size)-1 {
			t.Fatalf("VERIF-INCONCLUSIVE C11: only %d of %d events delivered (buffer %d, %s)", len(items), made, size, policy)
		}
		if made > size && policy != "Block" {
			vk.NonTrivial(fmt.Sprintf("%s/%d/%d/%d/%v/%v", policy, size, calls, first, fast, enable))
		}
		for _, it := range items {
			e, ok := want[int(it.ID)]
			if !ok {
				t.Fatalf("VERIF-INCONCLUSIVE C11: unknown event id %d", it.ID)
			}
			if !enable {
				if it.File != "" || it.Line != 0 {
					t.Fatalf("VERIF-VIOLATION C11: caller lookup is disabled but a record delivered by a saturated %s asynchronous logger carries %s:%d", policy, short(it.File), it.Line)
				}
				continue
			}
			if it.File != e.file || it.Line != e.line {
				t.Fatalf("VERIF-VIOLATION C11: the record of site id=%d, logged while the %s asynchronous logger's buffer (size %d) was full, says %q:%d; its calling statement is at %s:%d (fast=%v)", it.ID, policy, size, short(it.File), it.Line, short(e.file), e.line, fast)
			}
		}
		vk.Sample(map[string]any{"policy": policy, "size": size, "events_logged": made, "delivered": len(items), "fast": fast, "caller": enable})
	})
}
