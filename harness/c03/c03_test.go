// C03 - concurrent logging yields whole, unmixed lines - one per event.
//
// The harness owns what it can of the schedule: the console sink is a writer that consumes its
// argument slowly, in chunks, before committing a private copy; the whole package is built with
// -race so that a buffer recycled while a write still reads it is also a happens-before report.
// Oracle: (i) every line is complete and self-consistent, (ii) the multiset of lines written
// concurrently equals, byte for byte, the multiset the same events produce when logged one at a
// time from the same call site, (iii) one line per event.
package c03

import (
	"bytes"
	"context"
	"fmt"
	"hash/crc32"
	"os"
	"path/filepath"
	"regexp"
	"runtime"
	"sort"
	"strconv"
	"strings"
	"sync"
	"sync/atomic"
	"testing"
	"time"

	"github.com/go-spring/log"
	"pgregory.net/rapid"

	"verifharness/vk"
)

const rule = "G in 2..64 goroutines x events per goroutine x layout x sink kind (console stream, file, rolling file; through the built-in console logger, Logger+appender, Console/File logger kinds, with/without logger-level layout) x payload sizes from tens of bytes to 4x the buffer-reuse cap x sink delay pattern; non-trivial = the sink saw overlapping writes and (a line exceeded the reuse cap or a slow write overlapped another); distinct by the drawn parameters"

func init() {
	log.RegisterTimeRotation("1s", log.TimeRotation{Interval: time.Second})
}

var tag = log.RegisterTag("_c03_t")
var tagU = log.RegisterTag("_c03_u")

// twoTags: goroutines with an odd number log through the second tag (path twologgers+samefile)
var twoTags bool

// ---------------------------------------------------------------- slow sink

type slowSink struct {
	mu       sync.Mutex
	buf      bytes.Buffer
	chunk    int
	pause    time.Duration
	yield    bool
	fast     atomic.Bool // sequential reference phase: no delays
	inflight atomic.Int32
	overlaps atomic.Int64
	writes   atomic.Int64
}

func (s *slowSink) Write(p []byte) (int, error) {
	if s.inflight.Add(1) > 1 {
		s.overlaps.Add(1)
	}
	s.writes.Add(1)
	staged := make([]byte, 0, len(p))
	chunk := s.chunk
	if chunk <= 0 || s.fast.Load() {
		chunk = len(p)
	}
	// at most 8 pauses per write, spread over the chunks: the point is to be still reading the
	// caller's bytes while other goroutines format their events, not to be slow per se
	nchunks := 1
	if chunk > 0 {
		nchunks = (len(p) + chunk - 1) / chunk
	}
	every := max(1, nchunks/8)
	for off, i := 0, 0; off < len(p); off, i = off+chunk, i+1 {
		end := min(off+chunk, len(p))
		staged = append(staged, p[off:end]...) // "consuming" the bytes
		if s.fast.Load() || i%every != 0 {
			continue
		}
		if s.yield {
			runtime.Gosched()
		}
		if s.pause > 0 {
			time.Sleep(s.pause)
		}
	}
	s.mu.Lock()
	s.buf.Write(staged)
	s.mu.Unlock()
	s.inflight.Add(-1)
	return len(p), nil
}

func (s *slowSink) snapshot() []byte {
	s.mu.Lock()
	defer s.mu.Unlock()
	return bytes.Clone(s.buf.Bytes())
}

// ---------------------------------------------------------------- case

type params struct {
	G       int
	PerG    int
	Layout  string // TextLayout | JSONLayout
	Path    string // builtin | logger+console | logger+layout+console | consolelogger | logger+file | filelogger | logger+rolling | logger+layout+file
	BufCap  string
	Sizes   []int
	Chunk   int
	PauseUS int
	Yield   bool
	// CtxFields: the FieldsFromContext hook hands every event the same request-scoped slice, which
	// has spare capacity (built with append, as such slices are); CtxString likewise a shared string
	CtxFields bool
	Fast      bool // fastCaller=true: every line's file:line comes out of the shared call-site cache, cold when the goroutines start
	// Prepared: every event's field slice is built once, before the goroutines start, and spread into
	// the call (log.Info(ctx, tag, fs...)) in both phases: the slice is the caller's, and the line of
	// the second call with it is the line of the first
	Prepared bool
}

func (p params) key() string { return fmt.Sprintf("%+v", p) }

func genParams(t *rapid.T) params {
	var p params
	p.G = rapid.IntRange(2, 64).Draw(t, "G")
	p.PerG = rapid.IntRange(1, 12).Draw(t, "perG")
	p.Layout = rapid.SampledFrom([]string{"TextLayout", "JSONLayout"}).Draw(t, "layout")
	p.Path = rapid.SampledFrom([]string{"builtin", "logger+console", "logger+console", "logger+layout+console", "consolelogger", "logger+file", "filelogger", "logger+rolling", "logger+layout+file", "rollinglogger", "rollinglogger+layout", "twologgers+samefile"}).Draw(t, "path")
	p.BufCap = rapid.SampledFrom([]string{"10KB", "10KB", "1KB", "2KB"}).Draw(t, "bufferCap")
	capBytes := map[string]int{"10KB": 10240, "1KB": 1024, "2KB": 2048}[p.BufCap]
	n := rapid.IntRange(1, 4).Draw(t, "nsizes")
	for i := 0; i < n; i++ {
		switch rapid.IntRange(0, 3).Draw(t, "sizeK") {
		case 0:
			p.Sizes = append(p.Sizes, rapid.IntRange(1, 100).Draw(t, "small"))
		case 1:
			p.Sizes = append(p.Sizes, rapid.IntRange(100, capBytes).Draw(t, "mid"))
		default:
			p.Sizes = append(p.Sizes, rapid.IntRange(capBytes, 4*capBytes).Draw(t, "big"))
		}
	}
	p.Chunk = rapid.SampledFrom([]int{0, 1, 7, 64, 512}).Draw(t, "chunk")
	p.PauseUS = rapid.SampledFrom([]int{0, 0, 1, 20, 200}).Draw(t, "pauseUS")
	if rapid.IntRange(0, 7).Draw(t, "hugeLines") == 0 {
		// lines far beyond any buffer size the library or the OS may think of (64 KiB pipe/console
		// limits): still one write, one line
		p.Sizes = append(p.Sizes, rapid.SampledFrom([]int{70000, 131100, 200000}).Draw(t, "huge"))
		p.G, p.PerG = min(p.G, 8), min(p.PerG, 4)
		if p.Chunk > 0 {
			p.Chunk = 4096
		}
	}
	p.Yield = rapid.Bool().Draw(t, "yield")
	p.CtxFields = rapid.Bool().Draw(t, "ctxFields")
	p.Fast = rapid.Bool().Draw(t, "fastCaller")
	p.Prepared = rapid.Bool().Draw(t, "preparedFields")
	return p
}

func (p params) config(dir string) map[string]string {
	m := map[string]string{"enableCaller": "true", "fastCaller": fmt.Sprint(p.Fast), "bufferCap": p.BufCap}
	lg := "logger.t."
	m[lg+"tags"] = "_c03_t"
	switch p.Path {
	case "logger+console":
		m["appender.a.type"] = "Console"
		m["appender.a.layout.type"] = p.Layout
		m[lg+"type"] = "Logger"
		m[lg+"appenderRef.ref"] = "a"
	case "logger+layout+console":
		m["appender.a.type"] = "Console"
		m[lg+"type"] = "Logger"
		m[lg+"layout.type"] = p.Layout
		m[lg+"appenderRef.ref"] = "a"
	case "consolelogger":
		m["appender.unused.type"] = "Discard"
		m[lg+"type"] = "Console"
		m[lg+"layout.type"] = p.Layout
	case "logger+file":
		m["appender.a.type"] = "File"
		m["appender.a.fileDir"] = dir
		m["appender.a.fileName"] = "c03.log"
		m["appender.a.layout.type"] = p.Layout
		m[lg+"type"] = "Logger"
		m[lg+"appenderRef.ref"] = "a"
	case "twologgers+samefile":
		// two loggers, each with its own File appender, on one file (say, text events of two
		// subsystems collected in app.log): every write must still land whole at the end
		for _, a := range []string{"a", "b"} {
			m["appender."+a+".type"] = "File"
			m["appender."+a+".fileDir"] = dir
			m["appender."+a+".fileName"] = "c03.log"
			m["appender."+a+".layout.type"] = p.Layout
		}
		m[lg+"type"] = "Logger"
		m[lg+"appenderRef.ref"] = "a"
		m["logger.u.type"] = "Logger"
		m["logger.u.tags"] = "_c03_u"
		m["logger.u.appenderRef.ref"] = "b"
	case "logger+layout+file":
		m["appender.a.type"] = "File"
		m["appender.a.fileDir"] = dir
		m["appender.a.fileName"] = "c03.log"
		m[lg+"type"] = "Logger"
		m[lg+"layout.type"] = p.Layout
		m[lg+"appenderRef.ref"] = "a"
	case "filelogger":
		m["appender.unused.type"] = "Discard"
		m[lg+"type"] = "File"
		m[lg+"fileDir"] = dir
		m[lg+"fileName"] = "c03.log"
		m[lg+"layout.type"] = p.Layout
	case "rollinglogger", "rollinglogger+layout":
		m["appender.unused.type"] = "Discard"
		m[lg+"type"] = "RollingFile"
		m[lg+"fileDir"] = dir
		m[lg+"fileName"] = "c03.log"
		m[lg+"rotation"] = "1s"
		m[lg+"async"] = "false"
		if p.Path == "rollinglogger+layout" {
			m[lg+"layout.type"] = p.Layout
		}
	case "logger+rolling":
		m["appender.a.type"] = "RollingFile"
		m["appender.a.fileDir"] = dir
		m["appender.a.fileName"] = "c03.log"
		m["appender.a.rotation"] = "1s"
		m["appender.a.maxAge"] = "100"
		m["appender.a.layout.type"] = p.Layout
		m[lg+"type"] = "Logger"
		m[lg+"appenderRef.ref"] = "a"
	}
	return m
}

func (p params) fileSink() bool {
	return strings.Contains(p.Path, "file") || strings.Contains(p.Path, "rolling")
}

type event struct {
	g, seq int
	fill   string
	crc    uint32
}

var fixedTime = time.Date(2026, 1, 2, 3, 4, 5, 678000000, time.UTC)

type evKey struct{}

// eventTime: an event's timestamp is derived from g and seq and handed to the library through the
// TimeNow hook and the call's context. A few distinct milliseconds are in flight at any moment,
// each shared by events of several goroutines (bursts share a millisecond in real use too), and
// the second moves on every 50 events.
func eventTime(e event) time.Time {
	return fixedTime.Add(time.Duration((e.g+e.seq)%4)*time.Millisecond + time.Duration(e.seq/50)*time.Second)
}

//go:noinline
func logOne(e event) {
	// nested containers first (the text layout hands them to an embedded JSON encoder), then the self-validating scalars
	tg := tag
	if twoTags && e.g%2 == 1 {
		tg = tagU
	}
	// "ctl": control characters that differ from goroutine to goroutine (their \u00XX escapes are
	// produced while other goroutines produce theirs)
	ctl := ctlOf(e)
	fs, ok := prepared[[2]int{e.g, e.seq}]
	if !ok {
		fs = fieldsOf(e, ctl)
	}
	log.Info(context.WithValue(context.Background(), evKey{}, e), tg, fs...)
}

// prepared: field slices built before the goroutines start (read-only afterwards), by (g, seq)
var prepared map[[2]int][]log.Field

func ctlOf(e event) string {
	return string([]byte{byte(1 + e.g%7), 'x', byte(0x10 + (e.g+e.seq)%15), 0x7f})
}

func fieldsOf(e event, ctl string) []log.Field {
	return []log.Field{log.String("ctl", ctl), log.Ints("pre", []int{e.g, e.seq}), log.Object("obj", log.Int("g", e.g), log.Strings("s", []string{"x"})),
		log.Int("g", e.g), log.Int("seq", e.seq), log.Int("len", len(e.fill)), log.String("fill", e.fill), log.Uint("crc", e.crc)}
}

var lineRe = regexp.MustCompile(`\bg"?[=:](\d+)(?:\|\||,)"?seq"?[=:](\d+)(?:\|\||,)"?len"?[=:](\d+)(?:\|\||,)"?fill"?[=:]"?([a-z]*)"?(?:\|\||,)"?crc"?[=:](\d+)\}?$`)
var nestedRe = regexp.MustCompile(`\bpre"?[=:]\[(\d+),(\d+)\](?:\|\||,)"?obj"?[=:]\{"g":(\d+),"s":\["x"\]\}(?:\|\||,)"?g"?[=:]`)

func validLine(line string) error {
	m := lineRe.FindStringSubmatch(line)
	if m == nil {
		return fmt.Errorf("line is torn or mixed (does not have the shape of one event): %q", clip(line))
	}
	if nm := nestedRe.FindStringSubmatch(line); nm == nil || nm[1] != m[1] || nm[2] != m[2] || nm[3] != m[1] {
		return fmt.Errorf("the nested fields of the line are missing, damaged or belong to another event (g=%s seq=%s): %q", m[1], m[2], clip(line))
	}
	n, _ := strconv.Atoi(m[3])
	crc, _ := strconv.ParseUint(m[5], 10, 32)
	if len(m[4]) != n {
		return fmt.Errorf("line carries a payload of %d bytes but says len=%d: %q", len(m[4]), n, clip(line))
	}
	if crc32.ChecksumIEEE([]byte(m[1]+"/"+m[2]+"/"+m[4])) != uint32(crc) {
		return fmt.Errorf("line carries data of another event (g=%s seq=%s payload/crc mismatch): %q", m[1], m[2], clip(line))
	}
	return nil
}

func clip(s string) string {
	if len(s) > 200 {
		return s[:120] + "..." + s[len(s)-60:]
	}
	return s
}

func splitLines(b []byte) ([]string, error) {
	if len(b) > 0 && b[len(b)-1] != '\n' {
		return nil, fmt.Errorf("sink content does not end with a complete line: %q", clip(string(b)))
	}
	s := strings.Split(string(b), "\n")
	return s[:len(s)-1], nil
}

func readDir(dir string) []byte {
	ents, _ := os.ReadDir(dir)
	var names []string
	for _, e := range ents {
		names = append(names, e.Name())
	}
	sort.Strings(names)
	var all []byte
	for _, n := range names {
		b, _ := os.ReadFile(filepath.Join(dir, n))
		all = append(all, b...)
	}
	return all
}

func multisetDiff(a, b []string) string {
	ca := map[string]int{}
	for _, s := range a {
		ca[s]++
	}
	for _, s := range b {
		ca[s]--
	}
	var keys []string
	for k, v := range ca {
		if v != 0 {
			keys = append(keys, k)
		}
	}
	sort.Strings(keys)
	if len(keys) == 0 {
		return ""
	}
	k := keys[0]
	if ca[k] > 0 {
		return fmt.Sprintf("%d line(s) differ; e.g. written concurrently but produced by no event alone (x%d): %q", len(keys), ca[k], clip(k))
	}
	return fmt.Sprintf("%d line(s) differ; e.g. an event's line is missing from the concurrent output (x%d): %q", len(keys), -ca[k], clip(k))
}

func runCase(p params, dir string) error {
	log.Destroy()
	sink := &slowSink{chunk: p.Chunk, pause: time.Duration(p.PauseUS) * time.Microsecond, yield: p.Yield}
	log.Stdout = sink
	log.TimeNow = func(ctx context.Context) time.Time {
		if e, ok := ctx.Value(evKey{}).(event); ok {
			return eventTime(e)
		}
		return fixedTime
	}
	defer func() { log.TimeNow = nil }()
	twoTags = p.Path == "twologgers+samefile"
	if p.CtxFields {
		shared := make([]log.Field, 0, 32) // room for more than one call's fields
		shared = append(shared, log.String("req", "r-1"), log.Int("uid", 7))
		log.FieldsFromContext = func(context.Context) []log.Field { return shared }
		log.StringFromContext = func(ctx context.Context) string { // one trace id per goroutine
			if e, ok := ctx.Value(evKey{}).(event); ok {
				return fmt.Sprintf("trace-%04d", e.g)
			}
			return "trace-none"
		}
		defer func() { log.FieldsFromContext, log.StringFromContext = nil, nil }()
	}
	if p.Path != "builtin" {
		if err := log.Refresh(p.config(dir)); err != nil {
			return fmt.Errorf("VERIF-INCONCLUSIVE: Refresh failed: %v", err)
		}
	} else {
		// bufferCap is sticky; set it the way a user could, through a configuration, then tear down
		_ = log.Refresh(map[string]string{"bufferCap": p.BufCap, "appender.d.type": "Discard"})
		log.Destroy()
	}
	defer log.Destroy()

	events := make([][]event, p.G)
	total := 0
	for g := 0; g < p.G; g++ {
		for s := 0; s < p.PerG; s++ {
			n := p.Sizes[(g+s)%len(p.Sizes)]
			fill := strings.Repeat(string(rune('a'+(g*7+s)%26)), n)
			events[g] = append(events[g], event{g, s, fill, crc32.ChecksumIEEE([]byte(strconv.Itoa(g) + "/" + strconv.Itoa(s) + "/" + fill))})
			total++
		}
	}
	prepared = nil
	if p.Prepared {
		prepared = map[[2]int][]log.Field{}
		for g := range events {
			for _, e := range events[g] {
				prepared[[2]int{e.g, e.seq}] = fieldsOf(e, ctlOf(e))
			}
		}
		vk.Class("fields:prepared-slice-spread-twice")
	}
	defer func() { prepared = nil }()
	read := func() []byte {
		if p.fileSink() {
			return readDir(dir)
		}
		return sink.snapshot()
	}
	// phase 1: concurrent
	var wg sync.WaitGroup
	start := make(chan struct{})
	var stopAt time.Time
	if p.Path == "logger+rolling" || strings.HasPrefix(p.Path, "rollinglogger") {
		// aim the concurrent phase at a real rotation boundary: begin just before the next second
		// and keep logging (repeating the goroutine's event list with fresh sequence numbers) until
		// the boundary has passed
		now := time.Now()
		next := now.Truncate(time.Second).Add(time.Second)
		time.Sleep(next.Sub(now) - 25*time.Millisecond)
		stopAt = next.Add(25 * time.Millisecond)
	}
	extra := make([][]event, p.G)
	for g := 0; g < p.G; g++ {
		wg.Add(1)
		go func() {
			defer wg.Done()
			<-start
			for _, e := range events[g] {
				logOne(e)
			}
			for seq := p.PerG; !stopAt.IsZero() && time.Now().Before(stopAt) && seq < 4000; seq++ {
				fill := strings.Repeat(string(rune('a'+(g*7+seq)%26)), p.Sizes[(g+seq)%len(p.Sizes)]%600)
				e := event{g, seq, fill, crc32.ChecksumIEEE([]byte(strconv.Itoa(g) + "/" + strconv.Itoa(seq) + "/" + fill))}
				logOne(e)
				extra[g] = append(extra[g], e)
			}
		}()
	}
	close(start)
	wg.Wait()
	for g := range extra {
		events[g] = append(events[g], extra[g]...)
		total += len(extra[g])
	}
	if !stopAt.IsZero() {
		vk.Class("rolling:phase-straddles-a-boundary")
	}
	conc := read()
	// phase 2: the same events one at a time, same call site, same fixed time
	sink.fast.Store(true)
	for g := 0; g < p.G; g++ {
		for _, e := range events[g] {
			logOne(e)
		}
	}
	both := read()
	if !bytes.HasPrefix(both, conc) && !p.fileSink() {
		return fmt.Errorf("console stream content changed retroactively")
	}
	cl, err := splitLines(conc)
	if err != nil {
		return err
	}
	al, err := splitLines(both)
	if err != nil {
		return err
	}
	for _, l := range cl {
		if err := validLine(l); err != nil {
			return err
		}
	}
	if len(cl) != total {
		return fmt.Errorf("%d events logged concurrently, sink holds %d lines", total, len(cl))
	}
	if len(al) != 2*total {
		return fmt.Errorf("after the sequential phase the sink holds %d lines, expected %d", len(al), 2*total)
	}
	// reference: the lines the sequential phase added (all minus concurrent, as multisets)
	cm := map[string]int{}
	for _, l := range cl {
		cm[l]++
	}
	var seqOnly, concOnly []string
	for _, l := range al[len(cl):] {
		if cm[l] > 0 {
			cm[l]--
			continue
		}
		seqOnly = append(seqOnly, l)
	}
	for l, n := range cm {
		for i := 0; i < n; i++ {
			concOnly = append(concOnly, l)
		}
	}
	if !p.fileSink() || !strings.Contains(p.Path, "rolling") {
		if d := multisetDiff(concOnly, seqOnly); d != "" {
			return fmt.Errorf("the concurrent output is not the multiset of the events' own lines: %s", d)
		}
	}
	count := map[string]int{}
	for _, l := range al {
		count[l]++
	}
	var odd []string
	for l, n := range count {
		if n%2 != 0 {
			odd = append(odd, l)
		}
	}
	if len(odd) > 0 {
		sort.Strings(odd)
		return fmt.Errorf("the concurrent output is not the multiset of the events' own lines: %d line(s) have no twin in the sequential reference, e.g. %q", len(odd), clip(odd[0]))
	}
	maxLine := 0
	for _, l := range cl {
		if len(l) > maxLine {
			maxLine = len(l)
		}
	}
	capBytes := map[string]int{"10KB": 10240, "1KB": 1024, "2KB": 2048}[p.BufCap]
	ov := sink.overlaps.Load()
	if p.fileSink() {
		ov = int64(p.G) // file writes cannot be observed in-process; concurrency is by construction
	}
	if ov > 0 && (maxLine > capBytes || p.PauseUS > 0 || p.Yield || p.fileSink()) {
		vk.NonTrivial(p.key())
	}
	if sink.overlaps.Load() > 0 {
		vk.Class("sink-saw-overlapping-writes")
	}
	if maxLine > capBytes {
		vk.Class("line-beyond-reuse-cap")
	}
	return nil
}

func TestC03_Concurrent(t *testing.T) {
	vk.Rule(rule)
	vk.Assume("goroutine interleavings are sampled by the Go scheduler; the slow sink widens the window between formatting and consumption, the race detector reports unsynchronised reuse on the accesses it sees")
	base := vk.Scratch("c03")
	n := 0
	rapid.Check(t, func(t *rapid.T) {
		p := genParams(t)
		n++
		dir := filepath.Join(base, strconv.Itoa(n))
		_ = os.MkdirAll(dir, 0o755)
		defer os.RemoveAll(dir)
		vk.Eval()
		vk.Class("path:" + p.Path)
		vk.Class("layout:" + p.Layout)
		err := runCase(p, dir)
		vk.Sample(map[string]any{"params": p.key()})
		if err != nil {
			if strings.Contains(err.Error(), "VERIF-INCONCLUSIVE") {
				t.Fatalf("%v", err)
			}
			cp := vk.SaveCase("c03", map[string]any{"params": p, "error": err.Error(), "schedule_dependent": true})
			t.Fatalf("VERIF-VIOLATION C03: %v\nparams: %s (case %s)", err, p.key(), cp)
		}
	})
	log.Destroy()
}

// TestRegress_C03: sequential witness of the defect found before the fix: commit - the bytes a
// layout returned for one event must not change when the next event is formatted (with the bug
// the second call formatted into the same pooled buffer the first slice still pointed to).
func TestRegress_C03(t *testing.T) {
	for _, lay := range []log.Layout{&log.TextLayout{BaseLayout: log.BaseLayout{FileLineLength: 48}}, &log.JSONLayout{BaseLayout: log.BaseLayout{FileLineLength: 48}}} {
		for i := 0; i < 200; i++ {
			e1 := &log.Event{Level: log.InfoLevel, Time: fixedTime, Tag: "_c03_t", Fields: []log.Field{log.String("who", "first-event"), log.Int("i", i)}}
			e2 := &log.Event{Level: log.ErrorLevel, Time: fixedTime, Tag: "_c03_t", Fields: []log.Field{log.String("who", "SECOND-EVENT"), log.Int("i", -i)}}
			b1 := lay.ToBytes(e1)
			want := string(b1)
			_ = lay.ToBytes(e2)
			vk.Eval()
			if string(b1) != want {
				t.Fatalf("VERIF-VIOLATION C03 regress: the line returned for one event changed when another event was formatted:\n was %q\n now %q", want, b1)
			}
		}
	}
}
