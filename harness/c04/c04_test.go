// C04 - async logger: delivered + discarded = submitted, nothing twice.
//
// Domain A: controlled schedules (the worker is single-stepped through a gated appender) against a
// bounded-FIFO reference model. Domain B: randomised multi-producer schedules (race build).
package c04

import (
	"fmt"
	"testing"

	"pgregory.net/rapid"

	"verifharness/vk"
)

const rule = "A: generated histories over {enabled event, disabled event, raw write, step} from a generated initial occupancy, for every policy, buffer sizes 100-130, built directly or through Refresh; B: 1-32 producers x policy x appender speed pattern; non-trivial = history with >=1 overflow (a model discard or a Block wait); distinct by (setup, action sequence) / (setup)"

func init() { vk.InitAsyncNames("_c04_t", "c04h") }

func genSetup(t *rapid.T) vk.AsyncSetup {
	s := vk.AsyncSetup{
		Policy:     rapid.SampledFrom([]string{"Block", "Discard", "DiscardOldest"}).Draw(t, "policy"),
		Size:       rapid.SampledFrom([]int{100, 100, 101, 113, 130, 256, 200, 1000}).Draw(t, "size"),
		ViaRefresh: rapid.SampledFrom([]bool{false, false, true}).Draw(t, "viaRefresh"),
		Layout:     rapid.SampledFrom([]bool{false, false, true}).Draw(t, "layout"),
	}
	if !s.ViaRefresh {
		s.Second = rapid.Bool().Draw(t, "second")
		s.Restart = rapid.IntRange(0, 2).Draw(t, "restart") == 0
		s.FromNone = rapid.IntRange(0, 2).Draw(t, "fromNone") == 0
		s.RefsOrder = rapid.IntRange(0, 2).Draw(t, "refsOrder")
	}
	// initial occupancy: empty ... full (+1 for the in-flight slot)
	switch rapid.IntRange(0, 3).Draw(t, "occ") {
	case 0:
		s.Prefill = s.Size + 1
	case 1:
		s.Prefill = s.Size + 1 - rapid.IntRange(0, 3).Draw(t, "nearFull")
	case 2:
		s.Prefill = rapid.IntRange(0, s.Size+1).Draw(t, "any")
	default:
		s.Prefill = rapid.IntRange(0, 3).Draw(t, "nearEmpty")
	}
	return s
}

func genActions(t *rapid.T) []vk.AsyncAction {
	n := rapid.IntRange(1, 40).Draw(t, "nactions")
	var a []vk.AsyncAction
	for i := 0; i < n; i++ {
		a = append(a, vk.AsyncAction{K: rapid.SampledFrom([]string{"ev", "ev", "raw", "step", "dis", "ev", "raw", "raw0", "evl", "rawL", "evP", "ev0"}).Draw(t, "a")})
	}
	return a
}

func actionString(a []vk.AsyncAction) string {
	s := ""
	for _, x := range a {
		s += x.K[:1]
	}
	return s
}

func eq(a, b []int64) bool {
	if len(a) != len(b) {
		return false
	}
	for i := range a {
		if a[i] != b[i] {
			return false
		}
	}
	return true
}

func TestC04_Controlled(t *testing.T) {
	vk.Rule(rule)
	rapid.Check(t, func(t *rapid.T) {
		setup := genSetup(t)
		actions := genActions(t)
		res := vk.RunAsyncHistory(setup, "_c04_t", "c04h", actions)
		vk.Eval()
		vk.Class("policy:" + setup.Policy)
		if setup.ViaRefresh {
			vk.Class("via-refresh")
		}
		if res.Overflows > 0 {
			vk.Class("overflow")
			vk.NonTrivial(setup.String() + actionString(actions))
		}
		if res.BlockWaits > 0 {
			vk.Class("block-wait")
		}
		vk.Sample(map[string]any{"setup": setup.String(), "actions": actionString(actions), "submitted": len(res.Submitted), "model_discards": res.ExpDiscards})
		desc := fmt.Sprintf("setup: %s actions: %s", setup, actionString(actions))
		if res.Hang != "" {
			vk.HardFail("c04-hang", map[string]any{"setup": setup, "actions": actionString(actions)}, "C04: %s; %s", res.Hang, desc)
		}
		if res.Violation != "" {
			t.Fatalf("VERIF-VIOLATION C04: %s\n%s", res.Violation, desc)
		}
		// conservation
		seen := map[int64]int{}
		sub := map[int64]bool{}
		for _, id := range res.Submitted {
			sub[id] = true
		}
		for _, id := range res.Delivered {
			seen[id]++
			if !sub[id] {
				t.Fatalf("VERIF-VIOLATION C04: item id=%d was delivered but never submitted at an enabled level\n%s", id, desc)
			}
			if seen[id] > 1 {
				t.Fatalf("VERIF-VIOLATION C04: item id=%d was delivered %d times\n%s", id, seen[id], desc)
			}
		}
		if res.Counter >= 0 {
			if int64(len(res.Delivered))+res.Counter != int64(len(res.Submitted)) {
				t.Fatalf("VERIF-VIOLATION C04: delivered %d + discard counter %d != submitted %d\n%s", len(res.Delivered), res.Counter, len(res.Submitted), desc)
			}
			if res.Counter != res.ExpDiscards {
				t.Fatalf("VERIF-VIOLATION C04: discard counter is %d, the queue model discards %d\n%s", res.Counter, res.ExpDiscards, desc)
			}
			if setup.Policy == "Block" && res.Counter != 0 {
				t.Fatalf("VERIF-VIOLATION C04: Block policy but the discard counter is %d\n%s", res.Counter, desc)
			}
		}
		if len(res.Delivered) != len(res.ExpDelivered) {
			t.Fatalf("VERIF-VIOLATION C04: %d items delivered, the queue model delivers %d (submitted %d, model discards %d)\n%s", len(res.Delivered), len(res.ExpDelivered), len(res.Submitted), res.ExpDiscards, desc)
		}
		if res.HasRestricted {
			var wantRaw []int64
			for _, id := range res.Delivered {
				if res.RawIDs[id] || res.HighIDs[id] {
					wantRaw = append(wantRaw, id)
				}
			}
			if !eq(res.Restricted, wantRaw) {
				t.Fatalf("VERIF-VIOLATION C04: the appender reference with range [ERROR,MAX) received %d items %v; it must receive exactly the delivered raw writes and PANIC events %v (every other submitted event is below ERROR)\n%s", len(res.Restricted), tailIDs(res.Restricted), tailIDs(wantRaw), desc)
			}
		}
		if setup.Second && !eq(res.Delivered, res.Delivered2) {
			t.Fatalf("VERIF-VIOLATION C04: the two appenders of the logger received different items: %v vs %v\n%s", res.Delivered, res.Delivered2, desc)
		}
	})
}

func TestC04_Random(t *testing.T) {
	vk.Rule(rule)
	vk.Assume("randomised multi-producer schedules are sampled by the Go scheduler")
	rapid.Check(t, func(t *rapid.T) {
		s := vk.AsyncRandSetup{
			Policy:      rapid.SampledFrom([]string{"Block", "Discard", "DiscardOldest"}).Draw(t, "policy"),
			Size:        rapid.SampledFrom([]int{100, 100, 128, 1000}).Draw(t, "size"),
			Producers:   rapid.IntRange(1, 32).Draw(t, "producers"),
			PerProducer: rapid.IntRange(1, 400).Draw(t, "per"),
			Speed:       rapid.SampledFrom([]string{"slow", "stall", "delay", "fast"}).Draw(t, "speed"),
			Layout:      rapid.SampledFrom([]bool{false, false, true}).Draw(t, "layout"),
		}
		res := vk.RunAsyncRandom(s)
		vk.Eval()
		vk.Class("random:" + s.Policy)
		if res.Counter > 0 {
			vk.Class("random:overflowed")
			vk.NonTrivial("B:" + s.String())
		}
		vk.Sample(map[string]any{"random_setup": s.String(), "delivered": len(res.Delivered), "discarded": res.Counter})
		if res.Hang != "" {
			vk.HardFail("c04-hang", map[string]any{"setup": s}, "C04: %s; setup: %s", res.Hang, s)
		}
		if res.Violation != "" {
			t.Fatalf("VERIF-VIOLATION C04: %s\nsetup: %s", res.Violation, s)
		}
		seen := map[int64]bool{}
		for _, id := range res.Delivered {
			p, i := id/1_000_000, id%1_000_000
			if id < 0 || p >= int64(s.Producers) || i >= int64(s.PerProducer) {
				t.Fatalf("VERIF-VIOLATION C04: delivered an item nobody submitted (id=%d)\nsetup: %s", id, s)
			}
			if res.Disabled[id] {
				t.Fatalf("VERIF-VIOLATION C04: an event below the logger's level was delivered (id=%d)\nsetup: %s", id, s)
			}
			if seen[id] {
				t.Fatalf("VERIF-VIOLATION C04: item id=%d delivered twice\nsetup: %s", id, s)
			}
			seen[id] = true
		}
		if int64(len(res.Delivered))+res.Counter != int64(res.SubmittedEnabled) {
			t.Fatalf("VERIF-VIOLATION C04: delivered + discard counter != submitted at enabled levels\nsetup: %s", s)
		}
		if s.Policy == "Block" && res.Counter != 0 {
			t.Fatalf("VERIF-VIOLATION C04: Block policy with a non-zero discard counter\nsetup: %s", s)
		}
	})
}


func tailIDs(a []int64) []int64 {
	if len(a) > 10 {
		return a[len(a)-10:]
	}
	return a
}
