// C17 - the config-expression parser is total and flattens well-formed input exactly.
//
// Exactness: rapid generator of ASTs from Expr.g4 read as a specification, rendered with arbitrary
// token spacing; oracle = independent flattener over the AST + metamorphic re-rendering.
// Totality: arbitrary bytes, token soup, mutations of valid expressions, pathological shapes.
package c17

import (
	"context"
	"fmt"
	"os"
	"os/exec"
	"path/filepath"
	"reflect"
	"sort"
	"strings"
	"sync"
	"sync/atomic"
	"syscall"
	"testing"
	"time"

	"github.com/go-spring/log/expr"
	"pgregory.net/rapid"

	"verifharness/vk"
)

const ruleExact = "well-formed expressions generated from the grammar (nesting <= 6, all literal kinds, all admitted escapes, arbitrary token spacing, optional trailing comma); non-trivial = nesting >= 2, or a string escape / raw control character, or a duplicate key; distinct by rendered text"
const ruleTotal = "totality inputs: arbitrary byte strings, token soup, token/byte mutations of valid expressions, pathological shapes (deep nesting, huge literals); non-trivial = input that is rejected with an error or is a mutated valid expression; distinct by input hash"

// ---------------------------------------------------------------- AST

type seg struct {
	Name  string // IDENT, or "" for an index
	Index string // raw INTEGER text when Name == ""
}

type value struct {
	Kind    string // ident | string | integer | float | expr
	Text    string // literal text for ident/integer/float; raw literal incl. quotes for string
	Decoded string // for string: the unescaped content
	Sub     *node
}

type item struct {
	Path []seg
	Val  value
}

type node struct {
	Type  string
	Items []item
}

var identGen = rapid.OneOf(
	rapid.StringMatching(`[a-zA-Z_][a-zA-Z0-9_]{0,8}`),
	rapid.SampledFrom([]string{"type", "a", "b", "x", "level", "Logger", "appenderRef", "file_name", "_", "e1", "E5", "x0", "true", "null"}),
)

var intGen = rapid.OneOf(
	rapid.StringMatching(`[+-]?[0-9]{1,12}`),
	rapid.StringMatching(`0x[0-9a-fA-F]{1,8}`),
	rapid.SampledFrom([]string{"0", "-0", "+0", "007", "0x0", "18446744073709551616"}),
)

// every alternative of the FLOAT rule that is not also an INTEGER
var floatGen = rapid.OneOf(
	rapid.StringMatching(`[+-]?[0-9]{1,6}\.[0-9]{1,6}`),
	rapid.StringMatching(`[+-]?\.[0-9]{1,6}`),
	rapid.StringMatching(`[+-]?[0-9]{1,6}[eE][+-]?[0-9]{1,3}`),
	rapid.StringMatching(`[+-]?[0-9]{1,6}\.[0-9]{1,6}[eE][+-]?[0-9]{1,3}`),
	rapid.StringMatching(`[+-]?\.[0-9]{1,6}[eE][+-]?[0-9]{1,3}`),
)

type strPiece struct{ raw, dec string }

var escapes = []strPiece{{`\"`, `"`}, {`\\`, `\`}, {`\/`, `/`}, {`\b`, "\b"}, {`\f`, "\f"}, {`\n`, "\n"}, {`\r`, "\r"}, {`\t`, "\t"}}

func genString(t *rapid.T, stat *caseStat) value {
	n := rapid.IntRange(0, 8).Draw(t, "npieces")
	var raw, dec strings.Builder
	raw.WriteByte('"')
	for i := 0; i < n; i++ {
		switch rapid.IntRange(0, 5).Draw(t, "pk") {
		case 0:
			e := rapid.SampledFrom(escapes).Draw(t, "esc")
			raw.WriteString(e.raw)
			dec.WriteString(e.dec)
			stat.escape = true
			if e.raw == `\/` {
				stat.slashEscape = true
			}
		case 1:
			// raw characters the lexer admits inside quotes: anything but quote and backslash
			c := rapid.SampledFrom([]string{"\n", "\r", "\t", "\x00", "\x1f", "'", "/", "{", "}", "=", ",", " ", "\u00e9", "\u2028", "\U0001F600", "${x}"}).Draw(t, "rawc")
			raw.WriteString(c)
			dec.WriteString(c)
			if c == "\n" {
				stat.rawNewline = true
			}
			if c[0] < 0x20 {
				stat.escape = true
			}
		case 2:
			r := rapid.Rune().Filter(func(r rune) bool { return r != '"' && r != '\\' && r != 0xFFFD }).Draw(t, "rune")
			raw.WriteRune(r)
			dec.WriteRune(r)
			if r == '\n' {
				stat.rawNewline = true
			}
		default:
			s := rapid.StringMatching(`[a-zA-Z0-9 ./:_-]{0,10}`).Draw(t, "plain")
			raw.WriteString(s)
			dec.WriteString(s)
		}
	}
	raw.WriteByte('"')
	return value{Kind: "string", Text: raw.String(), Decoded: dec.String()}
}

type caseStat struct {
	crossLevel  bool
	depth       int
	escape      bool
	slashEscape bool
	rawNewline  bool
}

func genNode(t *rapid.T, depth int, stat *caseStat) *node {
	if depth > stat.depth {
		stat.depth = depth
	}
	n := &node{Type: identGen.Draw(t, "type")}
	cnt := rapid.IntRange(0, 5).Draw(t, "nitems")
	if depth >= 3 {
		cnt = rapid.IntRange(0, 2).Draw(t, "nitemsDeep")
	}
	for i := 0; i < cnt; i++ {
		var it item
		ns := rapid.IntRange(0, 3).Draw(t, "nseg")
		it.Path = append(it.Path, seg{Name: identGen.Draw(t, "p0")})
		for j := 0; j < ns; j++ {
			if rapid.Bool().Draw(t, "isIndex") {
				it.Path = append(it.Path, seg{Index: intGen.Draw(t, "idx")})
			} else {
				it.Path = append(it.Path, seg{Name: identGen.Draw(t, "pn")})
			}
		}
		// duplicate an earlier path on purpose
		if i > 0 && rapid.IntRange(0, 4).Draw(t, "dup") == 0 {
			it.Path = n.Items[rapid.IntRange(0, i-1).Draw(t, "dupOf")].Path
		}
		k := rapid.IntRange(0, 5).Draw(t, "vk")
		switch {
		case k == 0:
			it.Val = value{Kind: "ident", Text: identGen.Draw(t, "vid")}
		case k == 1:
			it.Val = genString(t, stat)
		case k == 2:
			it.Val = value{Kind: "integer", Text: intGen.Draw(t, "vint")}
		case k == 3:
			it.Val = value{Kind: "float", Text: floatGen.Draw(t, "vfloat")}
		case depth < 6:
			it.Val = value{Kind: "expr", Sub: genNode(t, depth+1, stat)}
		default:
			it.Val = value{Kind: "ident", Text: "leaf"}
		}
		n.Items = append(n.Items, it)
		// cross-level collision: the same flattened key set inside the nested block and, textually
		// later (or earlier), through a dotted path of the enclosing block
		if it.Val.Kind == "expr" && rapid.IntRange(0, 2).Draw(t, "crossDup") == 0 {
			var sub []seg
			if len(it.Val.Sub.Items) > 0 && rapid.Bool().Draw(t, "crossInner") {
				sub = it.Val.Sub.Items[rapid.IntRange(0, len(it.Val.Sub.Items)-1).Draw(t, "crossWhich")].Path
			} else if rapid.Bool().Draw(t, "crossFresh") {
				// a key below the same path that the block itself does NOT assign: it must survive
				sub = []seg{{Name: "zz_" + identGen.Draw(t, "crossFreshName")}}
			} else {
				sub = []seg{{Name: "type"}}
			}
			extra := item{Path: append(append([]seg{}, it.Path...), sub...), Val: value{Kind: "ident", Text: identGen.Draw(t, "crossVal")}}
			if rapid.Bool().Draw(t, "crossBefore") {
				n.Items = append(n.Items[:len(n.Items)-1:len(n.Items)-1], extra, it)
			} else {
				n.Items = append(n.Items, extra)
			}
			stat.crossLevel = true
		}
	}
	return n
}

// ---------------------------------------------------------------- reference flattener

func pathText(p []seg) string {
	var b strings.Builder
	for i, s := range p {
		if s.Name != "" || i == 0 {
			if i > 0 {
				b.WriteByte('.')
			}
			b.WriteString(s.Name)
		} else {
			b.WriteString("[" + s.Index + "]")
		}
	}
	return b.String()
}

func flatten(n *node, prefix string, out map[string]string, dup *bool) {
	set := func(k, v string) {
		if _, ok := out[k]; ok {
			*dup = true
		}
		out[k] = v
	}
	if prefix == "" {
		set("type", n.Type)
	} else {
		set(prefix+".type", n.Type)
	}
	for _, it := range n.Items {
		k := pathText(it.Path)
		if prefix != "" {
			k = prefix + "." + k
		}
		switch it.Val.Kind {
		case "string":
			set(k, it.Val.Decoded)
		case "expr":
			flatten(it.Val.Sub, k, out, dup)
		default:
			set(k, it.Val.Text)
		}
	}
}

// ---------------------------------------------------------------- renderer

type renderer struct {
	ws     func() string
	comma  func() bool
	tokens []string // token texts in order (for mutation)
}

func (r *renderer) render(n *node, b *strings.Builder) {
	emit := func(tok string) {
		b.WriteString(r.ws())
		b.WriteString(tok)
		r.tokens = append(r.tokens, tok)
	}
	emit(n.Type)
	emit("{")
	for i, it := range n.Items {
		if i > 0 {
			emit(",")
		}
		for j, s := range it.Path {
			if s.Name != "" || j == 0 {
				if j > 0 {
					emit(".")
				}
				emit(s.Name)
			} else {
				emit("[")
				emit(s.Index)
				emit("]")
			}
		}
		emit("=")
		if it.Val.Kind == "expr" {
			r.render(it.Val.Sub, b)
		} else {
			emit(it.Val.Text)
		}
	}
	if len(n.Items) > 0 && r.comma() {
		emit(",")
	}
	emit("}")
}

var wsChoices = []string{"", "", " ", "  ", "\t", "\n", "\r\n", " \n\t "}

func renderWith(t *rapid.T, n *node, label string) (string, []string) {
	r := &renderer{
		ws:    func() string { return rapid.SampledFrom(wsChoices).Draw(t, label+"ws") },
		comma: func() bool { return rapid.Bool().Draw(t, label+"comma") },
	}
	var b strings.Builder
	r.render(n, &b)
	b.WriteString(r.ws())
	return b.String(), r.tokens
}

func renderCompact(n *node) string {
	r := &renderer{ws: func() string { return "" }, comma: func() bool { return false }}
	var b strings.Builder
	r.render(n, &b)
	return b.String()
}

// ---------------------------------------------------------------- known findings (excluded by construction)

func known(sig string) bool {
	for _, k := range strings.Split(os.Getenv("VERIF_KNOWN"), ",") {
		if k == sig {
			return true
		}
	}
	return false
}

// ---------------------------------------------------------------- exactness

func diffMaps(got, want map[string]string) string {
	var keys []string
	for k := range want {
		keys = append(keys, k)
	}
	for k := range got {
		if _, ok := want[k]; !ok {
			keys = append(keys, k)
		}
	}
	sort.Strings(keys)
	var b strings.Builder
	for _, k := range keys {
		g, gok := got[k]
		w, wok := want[k]
		if gok != wok || g != w {
			fmt.Fprintf(&b, "key %q: got %q(%v) want %q(%v); ", k, g, gok, w, wok)
		}
	}
	return b.String()
}

func checkExact(t *rapid.T) {
	var stat caseStat
	ast := genNode(t, 1, &stat)
	if stat.slashEscape && known("C17:string-escape-slash") {
		vk.Excluded("C17:string-escape-slash")
		t.Skip("known finding excluded")
	}
	if stat.rawNewline && known("C17:string-raw-newline") {
		vk.Excluded("C17:string-raw-newline")
		t.Skip("known finding excluded")
	}
	want := map[string]string{}
	dup := false
	flatten(ast, "", want, &dup)
	in1, _ := renderWith(t, ast, "a")
	if rapid.IntRange(0, 2).Draw(t, "afterMalformed") == 0 {
		// an earlier, rejected input must leave nothing behind: first a malformed expression whose
		// defect sits inside a nested block (so that the walk is abandoned there)
		bad := rapid.SampledFrom([]string{"A{a=B{b}}", "A{a=B{b ,}}", "A{a=B{c=C{d}}}", "A{x=1,a=B{b[=1}}", "A{a=B{b=}}", "A{a.b=B{c}}", "A{a=B{b=1,c}}"}).Draw(t, "malformed")
		_, _ = expr.Parse(bad)
		vk.Class("exact:after-malformed-input")
	}
	got, err := expr.Parse(in1)
	vk.Eval()
	vk.Class(fmt.Sprintf("exact:depth=%d", stat.depth))
	if stat.escape {
		vk.Class("exact:string-escape-or-control")
	}
	if dup {
		vk.Class("exact:duplicate-key")
	}
	if stat.crossLevel {
		vk.Class("exact:cross-level-key-collision")
	}
	if stat.depth >= 2 || stat.escape || dup {
		vk.NonTrivial(in1)
	}
	if len(in1) < 300 {
		vk.Sample(map[string]any{"kind": "well-formed", "input": in1, "expected": want})
	}
	if err != nil {
		t.Logf("full error: %v", err)
		t.Fatalf("VERIF-VIOLATION C17 exact: well-formed expression rejected\ninput: %q\nerror: %s", in1, firstLine(err))
	}
	if !reflect.DeepEqual(got, want) {
		t.Fatalf("VERIF-VIOLATION C17 exact: wrong flattening\ninput: %q\n%s", in1, diffMaps(got, want))
	}
	// metamorphic: other spacing / trailing comma choice, and the compact rendering
	in2, _ := renderWith(t, ast, "b")
	for _, in := range []string{in2, renderCompact(ast)} {
		got2, err2 := expr.Parse(in)
		if err2 != nil || !reflect.DeepEqual(got2, want) {
			t.Fatalf("VERIF-VIOLATION C17 exact: re-rendering changes the result\nfirst: %q\nsecond: %q\nerr=%s\n%s", in1, in, firstLine(err2), diffMaps(got2, want))
		}
	}
	// white space is insignificant between tokens, not inside a string literal: the same expression
	// with one space more in a literal is another expression
	if v := spaceVariant(ast); v != nil {
		wantV := map[string]string{}
		d := false
		flatten(v, "", wantV, &d)
		inV := renderCompact(v)
		gotV, errV := expr.Parse(inV)
		vk.Class("exact:literal-spacing-variant")
		if errV != nil || !reflect.DeepEqual(gotV, wantV) {
			t.Fatalf("VERIF-VIOLATION C17 exact: after parsing %q, the expression %q (one more space inside a string literal) gives err=%s\n%s", renderCompact(ast), inV, firstLine(errV), diffMaps(gotV, wantV))
		}
	}
}

// spaceVariant returns a copy of the tree in which the first string literal containing a raw space
// has that space doubled (nil if there is none).
func spaceVariant(n *node) *node {
	done := false
	var cp func(n *node) *node
	cp = func(n *node) *node {
		c := &node{Type: n.Type}
		for _, it := range n.Items {
			ni := it
			if it.Val.Sub != nil {
				ni.Val.Sub = cp(it.Val.Sub)
			} else if !done && it.Val.Kind == "string" && strings.Contains(it.Val.Text, " ") && strings.Contains(it.Val.Decoded, " ") {
				ni.Val.Text = strings.Replace(it.Val.Text, " ", "  ", 1)
				ni.Val.Decoded = strings.Replace(it.Val.Decoded, " ", "  ", 1)
				done = true
			}
			c.Items = append(c.Items, ni)
		}
		return c
	}
	v := cp(n)
	if !done {
		return nil
	}
	return v
}

func TestC17_Exact(t *testing.T) {
	vk.Rule(ruleExact)
	rapid.Check(t, checkExact)
}

// ---------------------------------------------------------------- totality

var lastInputFile = func() string {
	d := os.Getenv("VERIF_REPLAY_DIR")
	if d == "" {
		return ""
	}
	_ = os.MkdirAll(d, 0o755)
	return filepath.Join(d, fmt.Sprintf("c17-inflight-%d.case.json", os.Getpid()))
}()

type totalCase struct {
	Input string `json:"input"`
	Note  string `json:"note"`
}

// parseTotal runs Parse under the totality oracle. persist: write the input to disk first so an
// unrecoverable runtime crash leaves a replay file.
func parseTotal(t vk.TB, in string, persist bool, limit time.Duration) (map[string]string, error) {
	if persist && lastInputFile != "" {
		_ = os.WriteFile(lastInputFile, []byte(fmt.Sprintf("{\"input\": %q, \"note\": \"input in flight when the process died\"}", in)), 0o644)
	}
	var (
		m   map[string]string
		err error
	)
	run := func() { m, err = expr.Parse(in) }
	var p any
	if limit > 0 {
		done, pp := vk.Within(limit, run)
		if !done {
			path := vk.SaveCase("c17-slow", totalCase{Input: in, Note: "Parse did not return within " + limit.String()})
			t.Fatalf("VERIF-INCONCLUSIVE C17 total: Parse still running after %v on an input of %d bytes (case %s)", limit, len(in), path)
		}
		p = pp
	} else {
		p = vk.Catch(run)
	}
	if persist && lastInputFile != "" {
		_ = os.Remove(lastInputFile)
	}
	if p != nil {
		path := vk.SaveCase("c17", totalCase{Input: in, Note: fmt.Sprint("panic: ", p)})
		t.Fatalf("VERIF-VIOLATION C17 total: Parse panicked: %v (input %q, case %s)", p, trunc(in), path)
	}
	if err != nil && m != nil {
		path := vk.SaveCase("c17", totalCase{Input: in, Note: "map and error both non-nil"})
		t.Fatalf("VERIF-VIOLATION C17 total: Parse returned a map together with an error (input %q, case %s)", trunc(in), path)
	}
	return m, err
}

// firstLine keeps failure messages deterministic (no stack traces with addresses): rapid only
// shrinks when re-running the same input reproduces the identical message.
func firstLine(err error) string {
	if err == nil {
		return "<nil>"
	}
	s := err.Error()
	if i := strings.IndexByte(s, '\n'); i >= 0 {
		s = s[:i]
	}
	return trunc(s)
}

func trunc(s string) string {
	if len(s) > 300 {
		return s[:300] + "..."
	}
	return s
}

var soupTokens = []string{"{", "}", ",", "=", ".", "[", "]", "\"", "\\", "a", "Type", "x1", "_", "0", "-1", "+2", "0x1F", "0x", "1.5", ".5", "1e9", "1e", "e", "\"s\"", "\"\\n\"", "\"\\/\"", "\"\\u0041\"", "\"\n\"", "'", " ", "\n", "\t", "\x00", "\u00e9", "${", "!", "~", "-", "+"}

func TestC17_Total(t *testing.T) {
	if p := vk.ReplayCase(); p != "" {
		var c totalCase
		if err := vk.LoadCase(p, &c); err != nil {
			t.Fatal(err)
		}
		if r := runChild("replay", c.Input, 600*time.Second); r.verdict == "violation" {
			t.Fatalf("VERIF-VIOLATION C17 total (replay): %s", r.detail)
		}
		return
	}
	vk.Rule(ruleTotal)
	rapid.Check(t, func(t *rapid.T) {
		var in string
		kind := rapid.IntRange(0, 3).Draw(t, "kind")
		mutated := false
		switch kind {
		case 0:
			// large inputs are exercised in child processes (TestC17_Large): a runaway parse
			// must not take the whole test process with it
			n := rapid.IntRange(0, 160).Draw(t, "n")
			in = string(rapid.SliceOfN(rapid.Byte(), n, n).Draw(t, "bytes"))
			vk.Class("total:bytes")
		case 1:
			n := rapid.IntRange(0, 60).Draw(t, "ntok")
			var b strings.Builder
			for i := 0; i < n; i++ {
				b.WriteString(rapid.SampledFrom(soupTokens).Draw(t, "tok"))
			}
			in = b.String()
			vk.Class("total:token-soup")
		default:
			var stat caseStat
			ast := genNode(t, 1, &stat)
			src, toks := renderWith(t, ast, "m")
			mutated = true
			if kind == 2 && len(toks) > 0 { // token-level mutation
				i := rapid.IntRange(0, len(toks)-1).Draw(t, "ti")
				switch rapid.IntRange(0, 3).Draw(t, "tm") {
				case 0:
					toks = append(toks[:i:i], toks[i+1:]...)
				case 1:
					toks = append(toks[:i+1:i+1], toks[i:]...)
				case 2:
					j := rapid.IntRange(0, len(toks)-1).Draw(t, "tj")
					toks[i], toks[j] = toks[j], toks[i]
				default:
					toks[i] = rapid.SampledFrom(soupTokens).Draw(t, "trepl")
				}
				in = strings.Join(toks, rapid.SampledFrom([]string{"", " "}).Draw(t, "join"))
				vk.Class("total:token-mutation")
			} else { // byte-level mutation
				b := []byte(src)
				nm := rapid.IntRange(1, 3).Draw(t, "nm")
				for k := 0; k < nm && len(b) > 0; k++ {
					i := rapid.IntRange(0, len(b)-1).Draw(t, "bi")
					switch rapid.IntRange(0, 2).Draw(t, "bm") {
					case 0:
						b = append(b[:i:i], b[i+1:]...)
					case 1:
						b[i] = rapid.Byte().Draw(t, "bb")
					default:
						b = append(b[:i+1:i+1], b[i:]...)
					}
				}
				in = string(b)
				vk.Class("total:byte-mutation")
			}
		}
		_, err := parseTotal(t, in, false, 0)
		vk.Eval()
		if err != nil || mutated {
			vk.NonTrivial(in)
		}
		if err != nil {
			vk.Class("total:rejected")
		} else {
			vk.Class("total:accepted")
		}
		if len(in) < 120 {
			vk.Sample(map[string]any{"kind": "totality", "input": in, "rejected": err != nil})
		}
	})
}

// ---------------------------------------------------------------- large inputs in child processes

const childAS = 4 << 30 // address-space budget of a child: 65536x the largest input

// TestC17_Child is the child side: parse one input file under an address-space limit.
func TestC17_Child(t *testing.T) {
	path := os.Getenv("VERIF_C17_INPUT")
	if path == "" {
		t.Skip("child mode only")
	}
	lim := syscall.Rlimit{Cur: childAS, Max: childAS}
	if err := syscall.Setrlimit(syscall.RLIMIT_AS, &lim); err != nil {
		fmt.Println("C17-CHILD-NOLIMIT", err)
	}
	b, err := os.ReadFile(path)
	if err != nil {
		t.Fatal(err)
	}
	t0 := time.Now()
	m, perr := parseTotal(t, string(b), false, 0)
	fmt.Printf("C17-CHILD-RESULT accepted=%v entries=%d ms=%d\n", perr == nil, len(m), time.Since(t0).Milliseconds())
}

type childResult struct {
	name     string
	size     int
	accepted bool
	ms       int64
	verdict  string // ok | violation | inconclusive
	detail   string
}

var childSeq atomic.Int64

func runChild(name, in string, limit time.Duration) childResult {
	res := childResult{name: name, size: len(in)}
	dir := os.Getenv("VERIF_SCRATCH")
	if dir == "" {
		dir = os.TempDir()
	}
	path := filepath.Join(dir, fmt.Sprintf("c17-%d-%d.in", os.Getpid(), childSeq.Add(1)))
	if err := os.WriteFile(path, []byte(in), 0o644); err != nil {
		res.verdict, res.detail = "inconclusive", err.Error()
		return res
	}
	defer os.Remove(path)
	ctx, cancel := context.WithTimeout(context.Background(), limit)
	defer cancel()
	cmd := exec.CommandContext(ctx, os.Args[0], "-test.run=^TestC17_Child$", "-test.v", "-test.timeout=0")
	cmd.Env = append(os.Environ(), "VERIF_C17_INPUT="+path, "VERIF_STATS=", "VERIF_REPLAY_DIR="+os.Getenv("VERIF_REPLAY_DIR"))
	out, err := cmd.CombinedOutput()
	so := string(out)
	switch {
	case ctx.Err() != nil:
		res.verdict, res.detail = "inconclusive", fmt.Sprintf("child still running after %v", limit)
	case strings.Contains(so, "VERIF-VIOLATION"):
		res.verdict, res.detail = "violation", tail(so, 1500)
	case err != nil:
		res.verdict = "violation"
		res.detail = "the parsing process crashed (" + err.Error() + ") under a 4 GiB address-space limit: " + tail(so, 1200)
	default:
		res.verdict = "ok"
		fmt.Sscanf(so[strings.Index(so, "C17-CHILD-RESULT"):], "C17-CHILD-RESULT accepted=%t entries=%d ms=%d", &res.accepted, new(int), &res.ms)
	}
	return res
}

func tail(s string, n int) string {
	// keep the head of a Go fatal error (it names the cause) rather than the goroutine dump
	if i := strings.Index(s, "fatal error:"); i >= 0 {
		s = s[i:]
		if len(s) > n {
			return s[:n]
		}
		return s
	}
	if len(s) > n {
		return s[len(s)-n:]
	}
	return s
}

type largeShape struct {
	name       string
	in         string
	wellFormed bool
}

func largeShapes(seed int64, thorough bool) []largeShape {
	const maxLen = 64 * 1024
	var shapes []largeShape
	add := func(name, in string, wf bool) {
		if len(in) <= maxLen {
			shapes = append(shapes, largeShape{name, in, wf})
		}
	}
	depths := []int{1000, 3000}
	if thorough {
		depths = append(depths, 6000, 10000, 13000)
	}
	for _, d := range depths {
		add(fmt.Sprintf("nested-%d", d), strings.Repeat("A{a=", d)+"B{}"+strings.Repeat("}", d), true)
		add(fmt.Sprintf("indices-%d", d), "A{a"+strings.Repeat("[0]", d)+"=1}", true)
		add(fmt.Sprintf("dots-%d", d), "A{a"+strings.Repeat(".b", d)+"=1}", true)
		add(fmt.Sprintf("many-items-%d", d), "A{"+strings.Repeat("k=1,", d)+"}", true)
		if d <= 3000 || thorough && d <= 6000 {
			add(fmt.Sprintf("unclosed-%d", d), strings.Repeat("A{a=", d), false)
		}
	}
	add("long-string", `A{a="`+strings.Repeat("x", 60000)+`"}`, true)
	add("long-escapes", `A{a="`+strings.Repeat(`\\`, 30000)+`"}`, true)
	add("long-unterminated-string", `A{a="`+strings.Repeat("x", 60000), false)
	add("long-digits", `A{a=`+strings.Repeat("9", 60000)+`}`, true)
	add("long-ident", strings.Repeat("a", 60000)+`{}`, true)
	add("braces-open", strings.Repeat("{", 60000), false)
	add("braces-close", strings.Repeat("}", 60000), false)
	add("equals", "A{"+strings.Repeat("=", 60000)+"}", false)
	add("quotes", strings.Repeat(`"`, 60001), false)
	add("backslashes", `A{a="`+strings.Repeat("\\", 30001), false)
	// inputs the lexer cannot tokenise at all, at growing sizes up to the 64 KiB bound
	for _, n := range []int{1000, 4000, 16000, 65536} {
		add(fmt.Sprintf("untokenisable-%d", n), strings.Repeat("\x01", n), false)
		add(fmt.Sprintf("bangs-%d", n), strings.Repeat("!", n), false)
	}
	// seeded pseudo-random large inputs: bytes, token soup, and a valid expression repeated with damage
	rng := seed
	next := func() int64 { rng = rng*6364136223846793005 + 1442695040888963407; return (rng >> 33) & 0x7fffffff }
	nrand := 4
	if thorough {
		nrand = 16
	}
	for i := 0; i < nrand; i++ {
		n := int(2000 + next()%63000)
		b := make([]byte, n)
		for j := range b {
			b[j] = byte(next())
		}
		add(fmt.Sprintf("random-bytes-%d", n), string(b), false)
		var sb strings.Builder
		for sb.Len() < n {
			sb.WriteString(soupTokens[int(next())%len(soupTokens)])
		}
		add(fmt.Sprintf("token-soup-%d", n), sb.String()[:n], false)
		var vb strings.Builder
		vb.WriteString("A{")
		for vb.Len() < n-40 {
			fmt.Fprintf(&vb, "k%d.x[%d]=\"v%d\",", next()%50, next()%9, next()%1000)
			if next()%40 == 0 {
				vb.WriteString(soupTokens[int(next())%len(soupTokens)])
			}
		}
		vb.WriteString("}")
		add(fmt.Sprintf("damaged-valid-%d", n), vb.String(), false)
	}
	return shapes
}

// TestC17_Large: every large / pathological input is parsed in a child process so that a crash
// (stack exhaustion, memory exhaustion) is observable and attributable to that input.
func TestC17_Large(t *testing.T) {
	if vk.ReplayCase() != "" {
		t.Skip()
	}
	vk.Rule(ruleTotal)
	vk.Assume("'never crashes the process' is judged with 4 GiB of address space available to a process that parses one input of at most 64 KiB")
	shapes := largeShapes(vk.Seed(), vk.Thorough())
	results := make([]childResult, len(shapes))
	sem := make(chan struct{}, 6)
	var wg sync.WaitGroup
	for i, s := range shapes {
		wg.Add(1)
		go func() {
			defer wg.Done()
			sem <- struct{}{}
			defer func() { <-sem }()
			results[i] = runChild(s.name, s.in, 600*time.Second)
		}()
	}
	wg.Wait()
	var firstViolation, firstInconclusive string
	for i, r := range results {
		vk.Eval()
		vk.Class("large:" + strings.TrimRight(r.name, "0123456789"))
		vk.NonTrivial("large:" + r.name)
		t.Logf("%-30s %6d bytes %8d ms accepted=%v verdict=%s", r.name, r.size, r.ms, r.accepted, r.verdict)
		switch {
		case r.verdict == "violation" && firstViolation == "":
			p := vk.SaveCase("c17-large", totalCase{Input: shapes[i].in, Note: r.name + ": " + r.detail})
			firstViolation = fmt.Sprintf("%s (%d bytes): %s (case %s)", r.name, r.size, r.detail, p)
		case r.verdict == "inconclusive" && firstInconclusive == "":
			firstInconclusive = fmt.Sprintf("%s (%d bytes): %s", r.name, r.size, r.detail)
		case r.verdict == "ok" && shapes[i].wellFormed && !r.accepted && firstViolation == "":
			p := vk.SaveCase("c17-large", totalCase{Input: shapes[i].in, Note: r.name + ": well-formed input rejected"})
			firstViolation = fmt.Sprintf("well-formed expression %s rejected (case %s)", r.name, p)
		}
	}
	vk.Sample(map[string]any{"kind": "large inputs in child processes", "count": len(shapes), "examples": []string{"A{a=A{a=...B{}...}} nested 3000 deep", "64 KiB of 0x01", "60000 x '{'", "random bytes", "token soup"}})
	if firstViolation != "" {
		t.Fatalf("VERIF-VIOLATION C17 total: %s", firstViolation)
	}
	if firstInconclusive != "" {
		t.Fatalf("VERIF-INCONCLUSIVE C17 total: %s", firstInconclusive)
	}
}

// FuzzC17 - coverage-guided totality (+ idempotence of accepted inputs under re-spacing is not assumed).
func FuzzC17(f *testing.F) {
	seeds := []string{
		"", "Logger {}", `Logger { level = "info" }`, "Logger { level = info }", `Logger { level = "info", output = "stdout" }`,
		`Logger { level = "info", file = FileAppender { path = "/tmp/app.log" } }`,
		`A { a.b[0].c = 1, d = -0x1F, e = +1.5e-3, f = .5, g = "x\"\\\/\b\f\n\r\t", }`,
		`Logger { level = "info" `, `Logger level = "info" }`, `Logger { level "info" }`, `Logger { level = }`, `Logger { a = 1,, }`,
		"A{a=\"line1\nline2\"}", `A{a="\/"}`, "A{a=B{b=C{c=D{}}}}", "A{a[0]=1,a[1]=2}", "A{\xff}", "A{a=\"\xff\"}",
	}
	for _, s := range seeds {
		f.Add(s)
	}
	f.Fuzz(func(t *testing.T, in string) {
		if len(in) > 64*1024 {
			return
		}
		parseTotal(t, in, false, 0)
	})
}

// TestRegress_C17: shrunk failures found by this check before the fix: commits (plain cases, no library).
func TestRegress_C17(t *testing.T) {
	for _, c := range []struct {
		in   string
		want map[string]string
	}{
		{"A{type=\"\n\"}", map[string]string{"type": "\n"}},
		{`A{a="x\/y"}`, map[string]string{"type": "A", "a": "x/y"}},
		{"A{a=\"l1\nl2\\/\\b\\f\\n\\r\\t\\\\\\\"\"}", map[string]string{"type": "A", "a": "l1\nl2/\b\f\n\r\t\\\""}},
	} {
		got, err := expr.Parse(c.in)
		vk.Eval()
		if err != nil || !reflect.DeepEqual(got, c.want) {
			t.Fatalf("VERIF-VIOLATION C17 regress: Parse(%q) = %v, %s; want %v", c.in, got, firstLine(err), c.want)
		}
	}
}

// TestC17_Concurrent: Parse is a function of its input. A batch of generated well-formed
// expressions (expected maps from the independent flattener) and malformed ones is parsed by
// several goroutines at once, every goroutine walking the batch from another offset; each
// result must be the one the input has on its own: the expected map, or an error and no map.
func TestC17_Concurrent(t *testing.T) {
	vk.Rule(ruleExact)
	rapid.Check(t, func(t *rapid.T) {
		type item struct {
			in   string
			want map[string]string // nil: must be rejected
		}
		var batch []item
		n := rapid.IntRange(8, 40).Draw(t, "batch")
		for i := 0; i < n; i++ {
			if rapid.IntRange(0, 4).Draw(t, "malformed?") == 0 {
				batch = append(batch, item{in: rapid.SampledFrom([]string{"A{a=B{b}}", "A{a=B{b ,}}", "A{x=1,a=B{b[=1}}", "A{a=B{b=}}", "A{", "}", "A{a=\"x}", "A{a=1,,}"}).Draw(t, "bad")})
				continue
			}
			var stat caseStat
			ast := genNode(t, 1, &stat)
			if stat.slashEscape && known("C17:string-escape-slash") || stat.rawNewline && known("C17:string-raw-newline") {
				continue
			}
			want := map[string]string{}
			dup := false
			flatten(ast, "", want, &dup)
			in, _ := renderWith(t, ast, fmt.Sprintf("r%d", i))
			batch = append(batch, item{in: in, want: want})
		}
		if len(batch) < 2 {
			return
		}
		G := rapid.SampledFrom([]int{8, 4, 16, 2}).Draw(t, "goroutines")
		rounds := rapid.SampledFrom([]int{20, 5, 60}).Draw(t, "rounds")
		errs := make([]string, G)
		var start, wg sync.WaitGroup
		start.Add(1)
		for g := 0; g < G; g++ {
			wg.Add(1)
			go func() {
				defer wg.Done()
				defer func() {
					if p := recover(); p != nil && errs[g] == "" {
						errs[g] = fmt.Sprintf("Parse panicked while other goroutines were parsing too: %v", p)
					}
				}()
				start.Wait()
				for r := 0; r < rounds && errs[g] == ""; r++ {
					for k := range batch {
						it := batch[(k+g*7+r)%len(batch)]
						m, err := expr.Parse(it.in)
						switch {
						case it.want == nil && (err == nil || m != nil):
							errs[g] = fmt.Sprintf("malformed input %q parsed next to other goroutines: map=%v err=%v, expected an error and no map", it.in, m, err)
						case it.want != nil && err != nil:
							errs[g] = fmt.Sprintf("well-formed input %q was rejected while other goroutines were parsing other inputs: %v", it.in, firstLineOf(err))
						case it.want != nil && !reflect.DeepEqual(m, it.want):
							errs[g] = fmt.Sprintf("input %q parsed while other goroutines were parsing other inputs gave %v, on its own it gives %v", it.in, m, it.want)
						}
						if errs[g] != "" {
							break
						}
					}
				}
			}()
		}
		start.Done()
		if done, _ := vk.Within(120*time.Second, wg.Wait); !done {
			vk.HardFail("c17-concurrent-hang", map[string]any{"batch": len(batch), "goroutines": G}, "C17: concurrent Parse calls on inputs of a few hundred bytes did not all return within 120 s")
		}
		vk.EvalN(int64(G * rounds * len(batch)))
		vk.Class(fmt.Sprintf("concurrent:goroutines=%d", G))
		vk.NonTrivial(fmt.Sprintf("concurrent/%d/%d/%s", G, len(batch), batch[0].in))
		for _, e := range errs {
			if e != "" {
				t.Fatalf("VERIF-VIOLATION C17: %s", e)
			}
		}
	})
}

func firstLineOf(err error) string {
	s := err.Error()
	if i := strings.IndexByte(s, '\n'); i >= 0 {
		s = s[:i]
	}
	return s
}
