// C20 - synchronous file logging is write-through: returned calls survive a crash.
//
// Crash points: the test binary re-executes itself as a child that logs from G goroutines through
// a synchronous logger and acknowledges every *returned* call on a pipe with a direct write(2);
// the child is SIGKILLed by the parent at the K-th acknowledgement or exits (status 0 or 3) itself
// right after it. The parent then reads the target: every acknowledged line must be there, whole,
// exactly once.
package c20

import (
	"bufio"
	"bytes"
	"context"
	"encoding/json"
	"fmt"
	"hash/crc32"
	"os"
	"os/exec"
	"os/signal"
	"path/filepath"
	"regexp"
	"strconv"
	"strings"
	"sync"
	"sync/atomic"
	"syscall"
	"testing"
	"time"

	"github.com/go-spring/log"
	"pgregory.net/rapid"

	"verifharness/vk"
)

const rule = "crash points: appender kind (File, RollingFile, Console to an inherited descriptor; through Logger or the File/Console/RollingFile logger kinds) x layout x 1-4 goroutines x N calls each x crash after the K-th acknowledged call (K in 1..G*N) x crash mode (SIGKILL from the parent, os.Exit(0), os.Exit(3)); rolling kinds also with the calls straddling a real rotation boundary and the crash at the end; non-trivial = (K < G*N or straddling) with G >= 2; distinct by (kind, layout, G, N, K, mode)"

type spec struct {
	Kind   string // file | rolling | console | filelogger | rollinglogger | consolelogger
	Layout string
	G, N   int
	K      int
	Mode   string // kill | exit0 | exit3
	Dir    string
	Pad    int
	// Straddle (rolling kinds): the goroutines start just before a rotation boundary and keep
	// logging until N calls are done and the boundary lies 3 ms back; the crash comes at the end (K=0)
	Straddle bool
	// Transient (file kinds): before the judged calls one write to the target fails for a reason
	// that goes away again (the file-size limit of the process is lowered to the file's size for
	// the duration of one call). A failed write is that call's loss; the calls after it are
	// written through like before.
	Transient bool
}

func (s spec) String() string {
	return fmt.Sprintf("kind=%s layout=%s G=%d N=%d K=%d mode=%s pad=%d straddle=%v", s.Kind, s.Layout, s.G, s.N, s.K, s.Mode, s.Pad, s.Straddle) + map[bool]string{true: " after-a-transient-write-failure", false: ""}[s.Transient]
}

// boom and boomArray are field values whose encoding panics (a nil dereference in user code).
type boom struct{ p *int }

func (b boom) MarshalJSON() ([]byte, error) { return []byte(strconv.Itoa(*b.p)), nil }

type boomArray struct{ p *int }

func (b boomArray) EncodeArray(enc log.Encoder) { enc.AppendInt64(int64(*b.p)) }

var tagT = log.RegisterTag("_c20_t")
var tagU = log.RegisterTag("_c20_u")

func init() {
	log.RegisterTimeRotation("1s", log.TimeRotation{Interval: time.Second})
}

// ---------------------------------------------------------------- child

func TestC20_Child(t *testing.T) {
	raw := os.Getenv("VERIF_C20_SPEC")
	if raw == "" {
		t.Skip("child mode only")
	}
	var s spec
	if err := json.Unmarshal([]byte(raw), &s); err != nil {
		fmt.Fprintln(os.Stderr, "bad spec", err)
		os.Exit(9)
	}
	ack := os.NewFile(3, "ack")
	var handle *log.LoggerWrapper
	if strings.HasPrefix(s.Kind, "rawhandle-") {
		handle = log.GetLogger("c20h") // handles can only be requested before the first Refresh
	}
	m := map[string]string{"enableCaller": "false", "bufferCap": "10KB", "logger.l.tags": "_c20_t"}
	switch s.Kind {
	case "file":
		m["appender.a.type"], m["appender.a.fileDir"], m["appender.a.fileName"], m["appender.a.layout.type"] = "File", s.Dir, "out.log", s.Layout
		m["logger.l.type"], m["logger.l.appenderRef.ref"] = "Logger", "a"
	case "rolling":
		m["appender.a.type"], m["appender.a.fileDir"], m["appender.a.fileName"], m["appender.a.layout.type"] = "RollingFile", s.Dir, "out.log", s.Layout
		m["appender.a.rotation"], m["appender.a.maxAge"] = "1s", "10"
		m["logger.l.type"], m["logger.l.appenderRef.ref"] = "Logger", "a"
	case "console":
		m["appender.a.type"], m["appender.a.layout.type"] = "Console", s.Layout
		m["logger.l.type"], m["logger.l.appenderRef.ref"] = "Logger", "a"
	case "filelogger":
		m["appender.unused.type"] = "Discard"
		m["logger.l.type"], m["logger.l.fileDir"], m["logger.l.fileName"], m["logger.l.layout.type"] = "File", s.Dir, "out.log", s.Layout
	case "rollinglogger":
		m["appender.unused.type"] = "Discard"
		m["logger.l.type"], m["logger.l.fileDir"], m["logger.l.fileName"], m["logger.l.layout.type"] = "RollingFile", s.Dir, "out.log", s.Layout
		m["logger.l.rotation"], m["logger.l.async"] = "1s", "false"
		if s.Pad%2 == 1 {
			// the warn-and-above file of its own: every second call below is an Error call
			m["logger.l.separate"] = "true"
		}
	case "consolelogger":
		m["appender.unused.type"] = "Discard"
		m["logger.l.type"], m["logger.l.layout.type"] = "Console", s.Layout
	case "console+file": // one logger, two references with the same (default) level range: both targets get every line
		m["appender.a.type"], m["appender.a.layout.type"] = "Console", s.Layout
		m["appender.b.type"], m["appender.b.fileDir"], m["appender.b.fileName"], m["appender.b.layout.type"] = "File", s.Dir, "out.log", s.Layout
		m["logger.l.type"], m["logger.l.appenderRef[0].ref"], m["logger.l.appenderRef[1].ref"] = "Logger", "a", "b"
	case "default-after-destroy": // a configuration without a root logger came and went: the built-in console logger serves again
		m["appender.a.type"], m["appender.a.fileDir"], m["appender.a.fileName"], m["appender.a.layout.type"] = "File", s.Dir, "before.log", s.Layout
		m["logger.l.type"], m["logger.l.appenderRef.ref"] = "Logger", "a"
	case "twofiles": // two loggers, each with its own File appender, collect their lines in one file
		for _, a := range []string{"a", "b"} {
			m["appender."+a+".type"], m["appender."+a+".fileDir"], m["appender."+a+".fileName"], m["appender."+a+".layout.type"] = "File", s.Dir, "out.log", s.Layout
		}
		m["logger.l.type"], m["logger.l.appenderRef.ref"] = "Logger", "a"
		m["logger.u.type"], m["logger.u.tags"], m["logger.u.appenderRef.ref"] = "Logger", "_c20_u", "b"
	case "rawhandle-file", "rawhandle-rolling", "rawhandle-console":
		// bytes written through the io.Writer handle of a named logger, some of them without a
		// trailing line break (fmt.Fprint, io.Copy): what Write has accepted is in the target
		switch s.Kind {
		case "rawhandle-file":
			m["appender.a.type"], m["appender.a.fileDir"], m["appender.a.fileName"] = "File", s.Dir, "out.log"
		case "rawhandle-rolling":
			m["appender.a.type"], m["appender.a.fileDir"], m["appender.a.fileName"] = "RollingFile", s.Dir, "out.log"
			m["appender.a.rotation"], m["appender.a.maxAge"] = "1s", "10"
		default:
			m["appender.a.type"] = "Console"
		}
		m["logger.l.type"], m["logger.l.appenderRef.ref"] = "Logger", "a"
		m["logger.c20h.type"], m["logger.c20h.tags"], m["logger.c20h.appenderRef.ref"] = "Logger", "_c20_h", "a"
	case "restarted-file", "restarted-rolling": // configured below: an appender value stopped and started again
		m["appender.unused.type"] = "Discard"
		m["logger.l.type"], m["logger.l.appenderRef.ref"] = "Logger", "unused"
	case "file+loggerlayout": // the logger formats, the appender receives bytes
		m["appender.a.type"], m["appender.a.fileDir"], m["appender.a.fileName"] = "File", s.Dir, "out.log"
		m["logger.l.type"], m["logger.l.appenderRef.ref"], m["logger.l.layout.type"] = "Logger", "a", s.Layout
	case "rolling+loggerlayout":
		m["appender.a.type"], m["appender.a.fileDir"], m["appender.a.fileName"] = "RollingFile", s.Dir, "out.log"
		m["appender.a.rotation"], m["appender.a.maxAge"] = "1s", "10"
		m["logger.l.type"], m["logger.l.appenderRef.ref"], m["logger.l.layout.type"] = "Logger", "a", s.Layout
	case "console+loggerlayout":
		m["appender.a.type"] = "Console"
		m["logger.l.type"], m["logger.l.appenderRef.ref"], m["logger.l.layout.type"] = "Logger", "a", s.Layout
	}
	if err := log.Refresh(m); err != nil {
		fmt.Fprintln(os.Stderr, "C20-CHILD-REFRESH-FAILED", err)
		os.Exit(8)
	}
	if s.Kind == "default-after-destroy" {
		log.Info(context.Background(), tagT, log.String("phase", "configured"))
		log.Destroy()
	}
	// emit is the log call under test
	emit := func(g, i int, pad string, crc uint32) {
		tg := tagT
		if s.Kind == "twofiles" && (g+i)%2 == 1 {
			tg = tagU
		}
		if s.Kind == "rollinglogger" && i%2 == 1 {
			log.Error(context.Background(), tg, log.Int("g", g), log.Int("seq", i), log.String("pad", pad), log.Uint("crc", crc))
			return
		}
		log.Info(context.Background(), tg, log.Int("g", g), log.Int("seq", i), log.String("pad", pad), log.Uint("crc", crc))
	}
	if handle != nil {
		emit = func(g, i int, pad string, crc uint32) {
			term := ";" // no line break at the end of this write
			if (g+i)%3 == 0 {
				term = "\n"
			}
			_, _ = fmt.Fprintf(handle, "g=%d||seq=%d||pad=%s||crc=%d%s", g, i, pad, crc, term)
		}
	}
	if strings.HasPrefix(s.Kind, "restarted-") {
		// the appender is used directly: started, used, stopped (a log file was rotated away by an
		// outside tool, say) and the same value started again - what it acknowledges after that
		// is in the file like before
		var lay log.Layout = &log.TextLayout{BaseLayout: log.BaseLayout{FileLineLength: 48}}
		if s.Layout == "JSONLayout" {
			lay = &log.JSONLayout{BaseLayout: log.BaseLayout{FileLineLength: 48}}
		}
		var app log.Appender
		if s.Kind == "restarted-file" {
			app = &log.FileAppender{AppenderBase: log.AppenderBase{Name: "a"}, Layout: lay, FileDir: s.Dir, FileName: "out.log"}
		} else {
			app = &log.RollingFileAppender{AppenderBase: log.AppenderBase{Name: "a"}, Layout: lay, FileDir: s.Dir, FileName: "out.log", Rotation: log.TimeRotation{Interval: time.Second}, MaxAge: 10}
		}
		for cycle := 0; cycle < 1+s.Pad%2; cycle++ {
			if err := app.Start(); err != nil {
				fmt.Fprintln(os.Stderr, "C20-CHILD-REFRESH-FAILED", err)
				os.Exit(8)
			}
			e := log.GetEvent()
			e.Level, e.Time, e.Tag, e.Fields = log.InfoLevel, time.Now(), "_c20_t", []log.Field{log.String("warmup", "x")}
			app.Append(e)
			app.Stop()
		}
		if err := app.Start(); err != nil {
			fmt.Fprintln(os.Stderr, "C20-CHILD-REFRESH-FAILED", err)
			os.Exit(8)
		}
		emit = func(g, i int, pad string, crc uint32) {
			e := log.GetEvent()
			e.Level, e.Time, e.Tag = log.InfoLevel, time.Now(), "_c20_t"
			e.Fields = []log.Field{log.Int("g", g), log.Int("seq", i), log.String("pad", pad), log.Uint("crc", crc)}
			app.Append(e)
			log.PutEvent(e)
		}
	}
	if s.Transient {
		target := filepath.Join(s.Dir, "out.log")
		emit(0, 2_000_000, "", crc32.ChecksumIEEE([]byte("0/2000000/"))) // the file exists and is not empty
		st, err := os.Stat(target)
		var old syscall.Rlimit
		if err != nil || syscall.Getrlimit(syscall.RLIMIT_FSIZE, &old) != nil {
			fmt.Fprintln(os.Stderr, "C20-CHILD-REFRESH-FAILED transient setup", err)
			os.Exit(8)
		}
		signal.Ignore(syscall.SIGXFSZ)
		lim := old
		lim.Cur = uint64(st.Size())
		if err := syscall.Setrlimit(syscall.RLIMIT_FSIZE, &lim); err != nil {
			fmt.Fprintln(os.Stderr, "C20-CHILD-REFRESH-FAILED transient setup", err)
			os.Exit(8)
		}
		_ = vk.Catch(func() { emit(0, 2_000_001, "x", crc32.ChecksumIEEE([]byte("0/2000001/x"))) }) // fails with EFBIG; not acknowledged
		if err := syscall.Setrlimit(syscall.RLIMIT_FSIZE, &old); err != nil {
			fmt.Fprintln(os.Stderr, "C20-CHILD-REFRESH-FAILED transient restore", err)
			os.Exit(8)
		}
	}
	var from, until time.Time
	if s.Straddle {
		// the goroutines need some tens of milliseconds of running before each owns a processor:
		// they spin from 80 ms before the boundary and log from 4 ms before it to 25 ms after it
		// (the rotation itself can take milliseconds: it syncs the file it retires)
		now := time.Now()
		boundary := now.Truncate(time.Second).Add(time.Second)
		time.Sleep(boundary.Sub(now) - 80*time.Millisecond)
		from, until = boundary.Add(-4*time.Millisecond), boundary.Add(25*time.Millisecond)
	}
	var acks atomic.Int64
	var wg sync.WaitGroup
	returned := make([]int, s.G)
	for g := 0; g < s.G; g++ {
		wg.Add(1)
		go func() {
			defer wg.Done()
			for s.Straddle && time.Now().Before(from) {
			}
			for i := 0; i < s.N || (s.Straddle && i < 50000 && time.Now().Before(until)); i++ {
				padLen := (s.Pad * (i + 1)) % 3000
				if s.Pad > 10000 && !s.Straddle && i%7 == 2 {
					padLen = s.Pad + i // a line well beyond the buffer-reuse cap (10 KB): one write all the same
				}
				pad := strings.Repeat(string(rune('a'+(g+i)%26)), padLen)
				crc := crc32.ChecksumIEEE([]byte(strconv.Itoa(g) + "/" + strconv.Itoa(i) + "/" + pad))
				if handle == nil && !s.Straddle && !strings.HasPrefix(s.Kind, "restarted-") && i%5 == 3 {
					// a call whose field cannot be encoded (its MarshalJSON / EncodeArray panics): if the
					// call returns all the same, it is a returned call like any other and its line is due
					shadow := 1_000_000 + i
					scrc := crc32.ChecksumIEEE([]byte(strconv.Itoa(g) + "/" + strconv.Itoa(shadow) + "/"))
					var bad log.Field
					if i%2 == 0 {
						bad = log.Reflect("boom", boom{})
					} else {
						bad = log.Array("boom", boomArray{})
					}
					if p := vk.Catch(func() {
						log.Info(context.Background(), tagT, bad, log.Int("g", g), log.Int("seq", shadow), log.String("pad", ""), log.Uint("crc", scrc))
					}); p == nil {
						_, _ = ack.Write([]byte(fmt.Sprintf("%d %d\n", g, shadow)))
					}
				}
				emit(g, i, pad, crc)
				if s.Straddle {
					// the crash comes after the last call: the returned calls are reported together
					// at the end, which keeps the goroutines dense around the boundary
					returned[g]++
					continue
				}
				// the call has returned: acknowledge with one direct write(2)
				_, _ = ack.Write([]byte(fmt.Sprintf("%d %d\n", g, i)))
				if n := acks.Add(1); int(n) == s.K {
					switch s.Mode {
					case "exit0":
						os.Exit(0)
					case "exit3":
						os.Exit(3)
					}
				}
			}
		}()
	}
	wg.Wait()
	// no Stop / Destroy on purpose: leaving without flushing is the point
	if s.Straddle {
		var sb strings.Builder
		for g, n := range returned {
			for i := 0; i < n; i++ {
				fmt.Fprintf(&sb, "%d %d\n", g, i)
			}
		}
		_, _ = ack.Write([]byte(sb.String()))
	}
	if s.K == 0 {
		switch s.Mode {
		case "exit3":
			os.Exit(3)
		case "kill":
			_, _ = ack.Write([]byte("END\n"))
		}
	}
	if s.Mode == "kill" {
		time.Sleep(30 * time.Second) // wait to be killed
	}
	os.Exit(0)
}

// ---------------------------------------------------------------- parent

var lineRe = regexp.MustCompile(`\bg"?[=:](\d+)(?:\|\||,)"?seq"?[=:](\d+)(?:\|\||,)"?pad"?[=:]"?([a-z]*)"?(?:\|\||,)"?crc"?[=:](\d+)\}?$`)

func runCrashPoint(s spec) (err error, acked int) {
	raw, _ := json.Marshal(s)
	pr, pw, perr := os.Pipe()
	if perr != nil {
		return fmt.Errorf("VERIF-INCONCLUSIVE: %v", perr), 0
	}
	defer pr.Close()
	cmd := exec.Command(os.Args[0], "-test.run=^TestC20_Child$")
	cmd.Env = append(os.Environ(), "VERIF_C20_SPEC="+string(raw), "VERIF_STATS=")
	cmd.ExtraFiles = []*os.File{pw}
	stdoutPath := filepath.Join(s.Dir, "stdout.txt")
	so, _ := os.Create(stdoutPath)
	defer so.Close()
	cmd.Stdout = so
	var stderr strings.Builder
	cmd.Stderr = &stderr
	if err := cmd.Start(); err != nil {
		pw.Close()
		return fmt.Errorf("VERIF-INCONCLUSIVE: %v", err), 0
	}
	pw.Close()
	type ackT struct{ g, seq int }
	var acks []ackT
	doneRead := make(chan struct{})
	go func() {
		defer close(doneRead)
		sc := bufio.NewScanner(pr)
		for sc.Scan() {
			if sc.Text() == "END" {
				_ = cmd.Process.Signal(syscall.SIGKILL)
				continue
			}
			var a ackT
			if _, err := fmt.Sscanf(sc.Text(), "%d %d", &a.g, &a.seq); err == nil {
				acks = append(acks, a)
				if s.Mode == "kill" && len(acks) == s.K {
					_ = cmd.Process.Signal(syscall.SIGKILL)
				}
			}
		}
	}()
	waitErr := make(chan error, 1)
	go func() { waitErr <- cmd.Wait() }()
	select {
	case <-waitErr:
	case <-time.After(60 * time.Second):
		_ = cmd.Process.Kill()
		return fmt.Errorf("VERIF-INCONCLUSIVE: child did not finish within 60 s: %s", stderr.String()), 0
	}
	<-doneRead
	if strings.Contains(stderr.String(), "C20-CHILD-REFRESH-FAILED") {
		return fmt.Errorf("VERIF-INCONCLUSIVE: child could not configure logging: %s", stderr.String()), 0
	}
	if need := s.G * s.N; len(acks) < min(s.K, need) || (s.K == 0 && len(acks) < need) {
		return fmt.Errorf("VERIF-INCONCLUSIVE: child acknowledged %d calls, crash point was %d: %s", len(acks), s.K, stderr.String()), len(acks)
	}
	// read the target
	// A process that dies while one of its threads is inside write(2) may leave the front part of
	// that write in the file (the kernel checks for a fatal signal between pages): the unterminated
	// tail of a target belongs to a call that never returned and is not a line.
	whole := func(b []byte) []byte {
		i := max(bytes.LastIndexByte(b, '\n'), bytes.LastIndexByte(b, ';'))
		return b[:i+1]
	}
	var data []byte
	switch s.Kind {
	case "console", "consolelogger", "console+loggerlayout", "rawhandle-console", "default-after-destroy":
		data, _ = os.ReadFile(stdoutPath)
		data = whole(data)
	default:
		ents, _ := os.ReadDir(s.Dir)
		for _, e := range ents {
			if strings.HasPrefix(e.Name(), "out.log") {
				b, _ := os.ReadFile(filepath.Join(s.Dir, e.Name()))
				data = append(data, whole(b)...)
			}
		}
	}
	if s.Kind == "console+file" {
		// both targets are judged: the file here, the console stream below
		con, _ := os.ReadFile(stdoutPath)
		for _, a := range acks {
			needle := fmt.Sprintf("seq=%d||", a.seq)
			if s.Layout == "JSONLayout" {
				needle = fmt.Sprintf(`"seq":%d,`, a.seq)
			}
			gneedle := fmt.Sprintf("g=%d||", a.g)
			if s.Layout == "JSONLayout" {
				gneedle = fmt.Sprintf(`"g":%d,`, a.g)
			}
			found := false
			for _, ln := range strings.Split(string(con), "\n") {
				if strings.Contains(ln, needle) && strings.Contains(ln, gneedle) {
					found = true
					break
				}
			}
			if !found {
				return fmt.Errorf("the call g=%d seq=%d had returned (acknowledged) before the process died, but its line is not on the console stream, the logger's first target (the file is its second)", a.g, a.seq), len(acks)
			}
		}
	}
	present := map[ackT]int{}
	for _, ln := range strings.FieldsFunc(string(data), func(r rune) bool { return r == '\n' || r == ';' }) {
		m := lineRe.FindStringSubmatch(ln)
		if m == nil {
			continue
		}
		g, _ := strconv.Atoi(m[1])
		seq, _ := strconv.Atoi(m[2])
		crc, _ := strconv.ParseUint(m[4], 10, 32)
		if crc32.ChecksumIEEE([]byte(m[1]+"/"+m[2]+"/"+m[3])) != uint32(crc) {
			return fmt.Errorf("the target holds a corrupted line for g=%d seq=%d", g, seq), len(acks)
		}
		present[ackT{g, seq}]++
	}
	for _, a := range acks {
		if present[a] != 1 {
			return fmt.Errorf("the call g=%d seq=%d had returned (acknowledged) before the process died, but its line is present %d times in the target (target holds %d complete lines, %d calls were acknowledged)", a.g, a.seq, present[a], len(present), len(acks)), len(acks)
		}
	}
	return nil, len(acks)
}

func TestC20_CrashPoints(t *testing.T) {
	vk.Rule(rule)
	vk.Assume("process-crash write-through (SIGKILL / os.Exit), not power-loss durability: no claim about fsync")
	base := vk.Scratch("c20")
	batch := 0
	rapid.Check(t, func(t *rapid.T) {
		const B = 8
		var specs []spec
		for i := 0; i < B; i++ {
			l := fmt.Sprintf("s%d", i)
			s := spec{
				Kind:   rapid.SampledFrom([]string{"file", "rolling", "console", "filelogger", "rollinglogger", "consolelogger", "file+loggerlayout", "rolling+loggerlayout", "console+loggerlayout", "rolling", "rollinglogger", "twofiles", "restarted-file", "restarted-rolling", "rawhandle-file", "rawhandle-rolling", "rawhandle-console", "console+file", "default-after-destroy"}).Draw(t, l+"kind"),
				Layout: rapid.SampledFrom([]string{"TextLayout", "JSONLayout"}).Draw(t, l+"layout"),
				G:      rapid.IntRange(1, 4).Draw(t, l+"G"),
				N:      rapid.SampledFrom([]int{1, 5, 30, 200, 1500}).Draw(t, l+"N"),
				Mode:   rapid.SampledFrom([]string{"kill", "exit0", "exit3"}).Draw(t, l+"mode"),
				Pad:    rapid.SampledFrom([]int{0, 7, 131, 997, 20011}).Draw(t, l+"pad"),
			}
			s.K = rapid.IntRange(1, s.G*s.N).Draw(t, l+"K")
			if strings.Contains(s.Kind, "rolling") && rapid.IntRange(0, 2).Draw(t, l+"straddle") > 0 {
				s.Straddle, s.K = true, 0
				s.G = rapid.SampledFrom([]int{4, 2, 8, 3}).Draw(t, l+"G2")
				s.N = min(s.N, 30)
			}
			if s.Kind == "file" || s.Kind == "filelogger" || s.Kind == "file+loggerlayout" {
				s.Transient = rapid.IntRange(0, 2).Draw(t, l+"transient") == 0
			}
			specs = append(specs, s)
		}
		batch++
		errs := make([]error, B)
		acked := make([]int, B)
		var wg sync.WaitGroup
		for i := range specs {
			specs[i].Dir = filepath.Join(base, fmt.Sprintf("b%d_%d", batch, i))
			_ = os.MkdirAll(specs[i].Dir, 0o755)
			wg.Add(1)
			go func() {
				defer wg.Done()
				errs[i], acked[i] = runCrashPoint(specs[i])
				if errs[i] == nil {
					_ = os.RemoveAll(specs[i].Dir)
				}
			}()
		}
		wg.Wait()
		for i, s := range specs {
			vk.Eval()
			vk.Class("kind:" + s.Kind)
			vk.Class("mode:" + s.Mode)
			if s.Straddle {
				vk.Class("straddles-rotation-boundary")
			}
			if (s.K < s.G*s.N || s.Straddle) && s.G >= 2 {
				vk.NonTrivial(s.String())
			}
			vk.Sample(map[string]any{"crash_point": s.String(), "acknowledged": acked[i]})
			if errs[i] != nil {
				if strings.Contains(errs[i].Error(), "VERIF-INCONCLUSIVE") {
					t.Fatalf("%v (spec %s)", errs[i], s)
				}
				p := vk.SaveCase("c20", map[string]any{"spec": s, "error": errs[i].Error()})
				t.Fatalf("VERIF-VIOLATION C20: %v\ncrash point: %s (case %s)", errs[i], s, p)
			}
		}
	})
}
