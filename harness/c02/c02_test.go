// C02 - each tag is served by the most specific configured logger, else root; conflicts are errors.
//
// Generator: a dense universe of tag names sharing prefixes, registered cumulatively; up to 4
// loggers + optional root with literal and wildcard tag lists, random spacing; ~35% of the cases
// carry exactly one injected fault. Oracle: independent longest-prefix matcher; every registered
// tag is logged once and must arrive at exactly the predicted logger; each clean configuration is
// refreshed three times (map iteration order independence).
package c02

import (
	"context"
	"fmt"
	"sort"
	"strings"
	"testing"
	"time"

	"github.com/go-spring/log"
	"pgregory.net/rapid"

	"verifharness/vk"
)

const rule = "tag sets over a ~680-name universe (1-4 segments of {aaa,aa,bb,c1}: one segment is a string prefix of another, with/without leading underscore) x up to 4 loggers + optional root with literal/wildcard tag lists; ~35% with one injected fault (duplicate string in two loggers, tags on root, empty tag list, malformed wildcard); non-trivial = some registered tag has >=2 candidates (literal+wildcard or two wildcard depths) belonging to different loggers, or a fault case; distinct by (tag lists, registered set size)"

var segs = []string{"aaa", "aa", "bb", "c1"} // "aa" is a string prefix of "aaa": a matcher that forgets the underscore boundary is exposed

var universe = func() []string {
	var out []string
	var rec func(prefix string, depth int)
	rec = func(prefix string, depth int) {
		if depth > 0 {
			for _, lead := range []string{"", "_"} {
				n := lead + prefix
				if len(n) >= 3 && len(n) <= 36 {
					out = append(out, n)
				}
			}
		}
		if depth == 4 {
			return
		}
		for _, s := range segs {
			if prefix == "" {
				rec(s, depth+1)
			} else {
				rec(prefix+"_"+s, depth+1)
			}
		}
	}
	rec("", 0)
	sort.Strings(out)
	return out
}()

// prefixes usable as wildcard stems: 1-3 segments, optional leading underscore
var stems = func() []string {
	var out []string
	for _, n := range universe {
		if strings.Count(strings.TrimPrefix(n, "_"), "_") <= 2 {
			out = append(out, n)
		}
	}
	out = append(out, "bb", "c1") // too short to be tags but fine as wildcard stems
	return out
}()

// a handle on the first logger's name: a logger that is also reachable by name is still a logger
// like any other (it must list tags)
var handleLg0 = log.GetLogger("lg0")

var registered = map[string]*log.Tag{}

func ensureBaseline() {
	if len(registered) == 0 {
		registered["_app_def"] = log.TagAppDef
		registered["_biz_def"] = log.TagBizDef
	}
}

type logger struct {
	Name string
	Tags []string // as listed (literals and wildcards), may contain duplicates
	Raw  string   // rendered tags attribute
	// Level is the logger's level attribute ("" = not written). Serving a tag is independent of it:
	// a logger whose range excludes the event (or is empty) still owns its tags - the event then
	// reaches nobody, in particular not a broader logger or root.
	Level  string
	Silent bool // the range does not admit INFO
	// ViaProp: the tags attribute is written as a ${property} placeholder and the list itself sits
	// in a top-level property, as any plugin attribute may be.
	ViaProp bool
}

type cfg struct {
	Loggers  []logger
	Root     bool
	RootKind string // Logger | AsyncLogger: the configured root is started and stopped like every other logger
	RootRaw  string // tags attribute on root (fault)
	Fault    string
}

func renderTags(t *rapid.T, tags []string, label string) string {
	var b strings.Builder
	for i, tg := range tags {
		if i > 0 {
			// entries are comma-separated and trimmed of white space (a list may be laid out over lines)
			b.WriteString(rapid.SampledFrom([]string{",", ", ", " ,", ",,", " , ,", ",\n", ",\r\n  ", "\t,\t", "\n,"}).Draw(t, label+"sep"))
		}
		b.WriteString(tg)
	}
	return rapid.SampledFrom([]string{"", "", " ", ",", "\n"}).Draw(t, label+"lead") + b.String() + rapid.SampledFrom([]string{"", "", " ", ",", " , ", "\n", ",\n"}).Draw(t, label+"trail")
}

func genCfg(t *rapid.T) cfg {
	var c cfg
	n := rapid.IntRange(1, 4).Draw(t, "nloggers")
	nameStride := rapid.SampledFrom([]int{0, 4}).Draw(t, "nameStride") // 0: lg0 zeta a1 rootx; 4: lg0 svc ro rootx
	used := map[string]bool{}
	for i := 0; i < n; i++ {
		// logger names on either side of "root" in every order Refresh might walk them in (the first
		// one stays lg0: a handle of that name exists)
		lg := logger{Name: []string{"lg0", "zeta", "a1", "rootx", "ro", "svc"}[(i*(1+nameStride))%6]}
		k := rapid.IntRange(1, 5).Draw(t, "ntags")
		for j := 0; j < k; j++ {
			var s string
			if rapid.Bool().Draw(t, "wild") {
				s = rapid.SampledFrom(stems).Draw(t, "stem") + "_*"
			} else {
				s = rapid.SampledFrom(universe).Draw(t, "lit")
			}
			if used[s] {
				continue // the same string in two loggers is a fault; only injected on purpose
			}
			lg.Tags = append(lg.Tags, s)
		}
		if len(lg.Tags) == 0 {
			// make sure the list is not empty
			for _, s := range universe {
				if !used[s] {
					lg.Tags = append(lg.Tags, s)
					break
				}
			}
		}
		for _, s := range lg.Tags {
			used[s] = true
		}
		// the same logger listing a string twice is legal
		if rapid.IntRange(0, 4).Draw(t, "dupSame") == 0 {
			lg.Tags = append(lg.Tags, lg.Tags[0])
		}
		switch rapid.IntRange(0, 7).Draw(t, "level") {
		case 0:
			lg.Level = rapid.SampledFrom([]string{"info", "DEBUG", "trace~error", "NONE"}).Draw(t, "admits")
		case 1:
			lg.Level, lg.Silent = rapid.SampledFrom([]string{"MAX", "ERROR~ERROR", "ERROR~INFO", "warn", "NONE~INFO"}).Draw(t, "silent"), true
		}
		c.Loggers = append(c.Loggers, lg)
	}
	c.Root = rapid.Bool().Draw(t, "root")
	c.RootKind = rapid.SampledFrom([]string{"Logger", "AsyncLogger"}).Draw(t, "rootKind")
	// rapid's integer ranges are biased towards small values: draw the ~35% fault rate from a table
	c.Fault = rapid.SampledFrom([]string{"", "", "", "", "", "", "", "", "", "", "", "", "", "dup-across-loggers", "dup-across-loggers", "root-tags", "root-tags", "empty-tags", "bad-wildcard", "bad-wildcard"}).Draw(t, "fault")
	if c.Fault != "" {
		switch c.Fault {
		case "dup-across-loggers":
			if len(c.Loggers) < 2 {
				c.Loggers = append(c.Loggers, logger{Name: "lgx", Tags: []string{}})
			}
			i := rapid.IntRange(0, len(c.Loggers)-1).Draw(t, "dupFrom")
			j := rapid.IntRange(0, len(c.Loggers)-2).Draw(t, "dupTo")
			if j >= i {
				j++
			}
			if len(c.Loggers[i].Tags) == 0 {
				i, j = j, i
			}
			s := rapid.SampledFrom(c.Loggers[i].Tags).Draw(t, "dupStr")
			pos := rapid.IntRange(0, len(c.Loggers[j].Tags)).Draw(t, "dupPos")
			tags := append([]string{}, c.Loggers[j].Tags[:pos]...)
			tags = append(tags, s)
			c.Loggers[j].Tags = append(tags, c.Loggers[j].Tags[pos:]...)
		case "root-tags":
			c.Root = true
			c.RootRaw = rapid.SampledFrom(universe).Draw(t, "rootTag")
			if rapid.Bool().Draw(t, "rootWild") {
				c.RootRaw = rapid.SampledFrom(stems).Draw(t, "rootStem") + "_*"
			}
		case "empty-tags":
			i := rapid.IntRange(0, len(c.Loggers)-1).Draw(t, "emptyWhich")
			c.Loggers[i].Tags = nil
			c.Loggers[i].Raw = rapid.SampledFrom([]string{"<omit>", "", " ", ",", " , ,"}).Draw(t, "emptyForm")
		case "bad-wildcard":
			i := rapid.IntRange(0, len(c.Loggers)-1).Draw(t, "badWhich")
			bad := rapid.SampledFrom([]string{"aaa*", "*", "*_aaa", "aaa_*x", "aaa_*_bb", "_aaa_bb*", "aaa_**", "*aaa_bb"}).Draw(t, "bad")
			pos := rapid.IntRange(0, len(c.Loggers[i].Tags)).Draw(t, "badPos")
			tags := append([]string{}, c.Loggers[i].Tags[:pos]...)
			tags = append(tags, bad)
			c.Loggers[i].Tags = append(tags, c.Loggers[i].Tags[pos:]...)
		}
	}
	for i := range c.Loggers {
		if c.Loggers[i].Raw == "" && len(c.Loggers[i].Tags) > 0 {
			c.Loggers[i].Raw = renderTags(t, c.Loggers[i].Tags, fmt.Sprintf("l%d", i))
		}
		if c.Loggers[i].Raw != "<omit>" {
			c.Loggers[i].ViaProp = rapid.IntRange(0, 3).Draw(t, fmt.Sprintf("viaProp%d", i)) == 0
		}
	}
	return c
}

func (c cfg) toMap() map[string]string {
	m := map[string]string{"enableCaller": "false"}
	for _, lg := range c.Loggers {
		m["appender.rec"+lg.Name+".type"] = "Rec"
		m["logger."+lg.Name+".type"] = "Logger"
		m["logger."+lg.Name+".appenderRef.ref"] = "rec" + lg.Name
		if lg.Raw != "<omit>" {
			m["logger."+lg.Name+".tags"] = lg.Raw
			if lg.ViaProp {
				m["logger."+lg.Name+".tags"] = "${tagsof" + lg.Name + "}"
				m["tagsof"+lg.Name] = lg.Raw
			}
		}
		if lg.Level != "" {
			m["logger."+lg.Name+".level"] = lg.Level
		}
	}
	if c.Root {
		m["appender.recroot.type"] = "Rec"
		m["logger.root.type"] = "Logger"
		if c.RootKind == "AsyncLogger" {
			m["logger.root.type"], m["logger.root.bufferFullPolicy"], m["logger.root.bufferSize"] = "AsyncLogger", "Block", "100"
		}
		m["logger.root.appenderRef.ref"] = "recroot"
		if c.RootRaw != "" {
			m["logger.root.tags"] = c.RootRaw
		}
	}
	return m
}

func (c cfg) desc() string {
	var parts []string
	for _, lg := range c.Loggers {
		parts = append(parts, fmt.Sprintf("%s:%q level=%q viaProperty=%v", lg.Name, lg.Raw, lg.Level, lg.ViaProp))
	}
	return fmt.Sprintf("loggers{%s} root=%v rootKind=%s rootTags=%q fault=%q", strings.Join(parts, " "), c.Root, c.RootKind, c.RootRaw, c.Fault)
}

// oracle: independent longest-prefix matcher. Returns the serving logger's name ("root" if none)
// and the number of candidates belonging to distinct loggers.
func (c cfg) serve(tag string) (string, int) {
	cands := map[string]bool{}
	best, bestLen := "", -1
	for _, lg := range c.Loggers {
		for _, s := range lg.Tags {
			if s == tag {
				cands[lg.Name] = true
				best, bestLen = lg.Name, 1<<30
			} else if stem, ok := strings.CutSuffix(s, "_*"); ok && stem != "" && strings.HasPrefix(tag, stem+"_") {
				cands[lg.Name] = true
				if len(stem) > bestLen {
					best, bestLen = lg.Name, len(stem)
				}
			}
		}
	}
	if best == "" {
		return "root", len(cands)
	}
	return best, len(cands)
}

var console = &vk.Capture{}

func TestC02_Routing(t *testing.T) {
	vk.Rule(rule)
	ensureBaseline()
	log.Stdout = console
	rapid.Check(t, func(t *rapid.T) {
		log.Destroy()
		// register a subset (cumulative)
		nreg := rapid.IntRange(0, 12).Draw(t, "nreg")
		for i := 0; i < nreg; i++ {
			name := rapid.SampledFrom(universe).Draw(t, "reg")
			registered[name] = log.RegisterTag(name)
		}
		c := genCfg(t)
		m := c.toMap()
		vk.Eval()
		if c.Fault != "" {
			vk.Class("fault:" + c.Fault)
			vk.NonTrivial(c.desc())
			var err error
			p := vk.Catch(func() { err = log.Refresh(m) })
			log.Destroy()
			if p != nil {
				t.Fatalf("VERIF-VIOLATION C02: Refresh panicked on a conflicting configuration: %v\nconfig: %s", p, c.desc())
			}
			if err == nil {
				t.Fatalf("VERIF-VIOLATION C02: Refresh accepted a configuration with fault %q instead of returning an error\nconfig: %s", c.Fault, c.desc())
			}
			return
		}
		vk.Class("clean")
		names := make([]string, 0, len(registered))
		for n := range registered {
			names = append(names, n)
		}
		sort.Strings(names)
		ambiguous := false
		for round := 0; round < 3; round++ {
			vk.ResetRecs()
			console.Reset()
			var err error
			if p := vk.Catch(func() { err = log.Refresh(m) }); p != nil || err != nil {
				log.Destroy()
				t.Fatalf("VERIF-VIOLATION C02: Refresh failed on a conflict-free configuration (round %d): panic=%v err=%v\nconfig: %s", round, p, firstLine(err), c.desc())
			}
			// a logging call that never returns (a logger that serves the tag but was never started)
			// would wedge the whole run: it is a verdict of its own
			if done, p := vk.Within(20*time.Second, func() {
				for i, n := range names {
					log.Info(context.Background(), registered[n], log.Int("id", i))
				}
				log.Destroy()
			}); !done {
				vk.HardFail("TestC02_Routing", map[string]any{"config": c.desc(), "round": round}, "C02: a logging call (or the Destroy after it) did not return within 20 s under a conflict-free configuration: a tag is bound to a logger that is not running\nconfig: %s", c.desc())
			} else if p != nil {
				t.Fatalf("VERIF-VIOLATION C02: a logging call panicked under a conflict-free configuration (round %d): %v\nconfig: %s", round, p, c.desc())
			}
			// where did each tag's event go?
			where := map[string][]string{}
			for rn, r := range vk.AllRecs() {
				for _, it := range r.Items() {
					where[it.Tag] = append(where[it.Tag], strings.TrimPrefix(rn, "rec"))
				}
			}
			con := console.String()
			for _, n := range names {
				want, cands := c.serve(n)
				if cands >= 2 {
					ambiguous = true
				}
				if want == "root" && !c.Root {
					want = "console"
				}
				got := append([]string{}, where[n]...)
				if strings.Contains(con, "] "+n+"||") {
					got = append(got, "console")
				}
				silent := false
				for _, lg := range c.Loggers {
					if lg.Name == want && lg.Silent {
						silent = true
					}
				}
				if silent {
					if len(got) != 0 {
						t.Fatalf("VERIF-VIOLATION C02: tag %q belongs to logger %s, whose level range excludes the event, but the event was delivered by %v: another logger served the tag (round %d)\nconfig: %s", n, want, got, round, c.desc())
					}
					vk.Class("tag-owned-by-silent-logger")
					continue
				}
				if len(got) != 1 || got[0] != want {
					t.Fatalf("VERIF-VIOLATION C02: tag %q was served by %v, expected exactly [%s] (round %d)\nconfig: %s", n, got, want, round, c.desc())
				}
			}
		}
		if ambiguous {
			vk.Class("tag-with-competing-candidates")
			vk.NonTrivial(c.desc() + fmt.Sprint(len(names)))
		}
		vk.Sample(map[string]any{"config": c.desc(), "registered_tags": len(names)})
	})
	log.Destroy()
	vk.Extra("registered_tags_at_end", len(registered))
}

func firstLine(err error) string {
	if err == nil {
		return "<nil>"
	}
	s := err.Error()
	if i := strings.IndexByte(s, '\n'); i >= 0 {
		s = s[:i]
	}
	return s
}
