// C10 - context hooks and lazy generators run exactly once iff the event is emitted.
//
// rapid state machine over {set/unset each hook, reconfigure the serving logger, call an entry
// point}; counting hooks record the context they were given; the oracle is a model of the
// serving logger's level range.
package c10

import (
	"context"
	"fmt"
	"regexp"
	"runtime"
	"strings"
	"sync"
	"sync/atomic"
	"testing"
	"time"

	"github.com/go-spring/log"
	"pgregory.net/rapid"

	"verifharness/vk"
)

const rule = "sequences of <=30 actions over {set/unset TimeNow, StringFromContext, FieldsFromContext; configure the serving logger (built-in console / Refresh-built sync / async, generated level range, text or JSON console layout); call one of the 15 entry points with a fresh context}; non-trivial = sequence with both an enabled and a disabled call while >=1 hook is set; distinct by the action sequence"

var tag = log.RegisterTag("_c10_t")

type tokenKey struct{}

// counting hooks
var (
	timeCalls, strCalls, fldCalls       int
	lastTimeCtx, lastStrCtx, lastFldCtx context.Context
	hookSeq                             int
)

var baseTime = time.Date(2031, 5, 6, 7, 8, 9, 0, time.UTC)

var hookZones = []*time.Location{time.UTC, time.FixedZone("+0530", 19800), time.FixedZone("-0800", -28800)}

// timeFor: the hook's answer for sequence number k. Consecutive events often get the same instant
// in different zones (a hook that reports the time in the request's zone), so the record must
// carry this call's wall-clock reading, not that of an earlier call at the same instant.
func timeFor(k int) time.Time {
	if k%11 == 5 {
		return time.Time{} // "no time known for this request": the hook's answer all the same
	}
	return baseTime.Add(time.Duration(k/7) * time.Second).In(hookZones[k%len(hookZones)])
}

func hookTime(ctx context.Context) time.Time {
	timeCalls++
	lastTimeCtx = ctx
	hookSeq++
	return timeFor(hookSeq)
}
func hookStr(ctx context.Context) string {
	strCalls++
	lastStrCtx = ctx
	hookSeq++
	return csFor(hookSeq)
}

// csFor / cfEmpty: a hook that is set may have nothing to say for a request (an empty string, no
// fields): it has been asked all the same, exactly once, and the record carries that answer.
func csFor(k int) string {
	if k%13 == 4 {
		return ""
	}
	return fmt.Sprintf("cs%d", k)
}
func cfEmpty(k int) bool { return k%17 == 6 }
func hookFld(ctx context.Context) []log.Field {
	fldCalls++
	lastFldCtx = ctx
	hookSeq++
	if cfEmpty(hookSeq) {
		return nil
	}
	// the last context field has the same key as the call's own id field: both are in the record
	return []log.Field{log.String("cf", fmt.Sprintf("v%d", hookSeq)), log.Int("cn", hookSeq), log.String("id", "ctx")}
}

type levelDef struct {
	name string
	code int
	l    log.Level
}

var levels = []levelDef{{"NONE", 0, log.NoneLevel}, {"TRACE", 100, log.TraceLevel}, {"DEBUG", 200, log.DebugLevel}, {"INFO", 300, log.InfoLevel},
	{"WARN", 400, log.WarnLevel}, {"ERROR", 500, log.ErrorLevel}, {"PANIC", 600, log.PanicLevel}, {"FATAL", 700, log.FatalLevel}, {"MAX", 999, log.MaxLevel}}

type rangeDef struct {
	s      string
	lo, hi int
}

var ranges = []rangeDef{{"", 0, 999}, {"INFO", 300, 999}, {"WARN~FATAL", 400, 700}, {"DEBUG~ERROR", 200, 500}, {"TRACE~DEBUG", 100, 200}, {"ERROR", 500, 999}, {"NONE~TRACE", 0, 100}, {"FATAL~INFO", 700, 300}}

type op struct {
	K      string // hook | config | call
	Hook   int    // 0 time, 1 string, 2 fields
	On     bool
	Logger string // builtin | sync | async
	Range  int
	Layout string
	Entry  string
	Level  int // index into levels (Record)
	Ctx    int // 0 valued Background, 1 derived (WithCancel), 2 valued TODO, 3 nil
	Sink   int // config: 0 recorder+console, 1 + rolling file appender, 2 + file appender
	// RefFloor (config): 0 = the appender references take everything the logger lets through;
	// otherwise an index into levels: every reference carries level=<that name>, so the logger may
	// enable levels none of its references takes. "Enabled" is a matter of the serving logger.
	RefFloor int
}

func (o op) String() string {
	switch o.K {
	case "hook":
		return fmt.Sprintf("hook%d=%v", o.Hook, o.On)
	case "config":
		return fmt.Sprintf("config(%s,%q,%s,sink%d)", o.Logger, ranges[o.Range].s, o.Layout, o.Sink)
	default:
		if o.Entry == "Record" {
			return fmt.Sprintf("Record@%s/ctx%d", levels[o.Level].name, o.Ctx)
		}
		return fmt.Sprintf("%s/ctx%d", o.Entry, o.Ctx)
	}
}

var entries = []string{"Trace", "Tracef", "Debug", "Debugf", "Info", "Infof", "Warn", "Warnf", "Error", "Errorf", "Panic", "Panicf", "Fatal", "Fatalf", "Record"}
var entryLevel = map[string]int{"Trace": 1, "Tracef": 1, "Debug": 2, "Debugf": 2, "Info": 3, "Infof": 3, "Warn": 4, "Warnf": 4, "Error": 5, "Errorf": 5, "Panic": 6, "Panicf": 6, "Fatal": 7, "Fatalf": 7}

func genOps(t *rapid.T) []op {
	n := rapid.IntRange(1, 30).Draw(t, "nops")
	var ops []op
	for i := 0; i < n; i++ {
		switch rapid.SampledFrom([]string{"call", "call", "call", "hook", "hook", "config"}).Draw(t, "k") {
		case "hook":
			ops = append(ops, op{K: "hook", Hook: rapid.IntRange(0, 2).Draw(t, "hook"), On: rapid.SampledFrom([]bool{true, true, false}).Draw(t, "on")})
		case "config":
			ops = append(ops, op{K: "config", Logger: rapid.SampledFrom([]string{"sync", "async", "builtin"}).Draw(t, "logger"),
				Range: rapid.IntRange(0, len(ranges)-1).Draw(t, "range"), Layout: rapid.SampledFrom([]string{"TextLayout", "JSONLayout"}).Draw(t, "layout"),
				Sink: rapid.SampledFrom([]int{1, 0, 2}).Draw(t, "sink"), RefFloor: rapid.SampledFrom([]int{0, 0, 3, 4, 2}).Draw(t, "refFloor")})
		default:
			o := op{K: "call", Entry: rapid.SampledFrom(entries).Draw(t, "entry"), Ctx: rapid.SampledFrom([]int{0, 0, 1, 2, 3}).Draw(t, "ctx")}
			if o.Entry == "Record" {
				o.Level = rapid.IntRange(0, len(levels)-1).Draw(t, "level")
			} else {
				o.Level = entryLevel[o.Entry]
			}
			ops = append(ops, o)
		}
	}
	return ops
}

var console = &vk.Capture{}

func waitRec(n int) bool {
	deadline := time.Now().Add(10 * time.Second)
	for time.Now().Before(deadline) {
		if r := vk.Rec("rec"); r != nil && r.Len() >= n {
			return true
		}
		time.Sleep(200 * time.Microsecond)
	}
	return false
}

var scratch = vk.Scratch("c10")

func TestC10_Hooks(t *testing.T) {
	vk.Rule(rule)
	log.Stdout = console
	rapid.Check(t, func(t *rapid.T) {
		ops := genOps(t)
		log.Destroy()
		vk.ResetRecs()
		console.Reset()
		log.TimeNow, log.StringFromContext, log.FieldsFromContext = nil, nil, nil
		defer func() {
			log.Destroy()
			log.TimeNow, log.StringFromContext, log.FieldsFromContext = nil, nil, nil
		}()
		set := [3]bool{}
		logger := "builtin"
		lo, hi := 0, 999
		refLo := 0
		layout := "TextLayout"
		delivered := 0
		sawEnabled, sawDisabled := false, false
		var seq []string
		for i, o := range ops {
			seq = append(seq, o.String())
			switch o.K {
			case "hook":
				set[o.Hook] = o.On
				switch o.Hook {
				case 0:
					log.TimeNow = nil
					if o.On {
						log.TimeNow = hookTime
					}
				case 1:
					log.StringFromContext = nil
					if o.On {
						log.StringFromContext = hookStr
					}
				default:
					log.FieldsFromContext = nil
					if o.On {
						log.FieldsFromContext = hookFld
					}
				}
			case "config":
				log.Destroy()
				vk.ResetRecs()
				console.Reset()
				delivered = 0
				logger, layout = o.Logger, o.Layout
				refLo = 0
				if o.Logger == "builtin" {
					lo, hi = 0, 999
					continue
				}
				lo, hi = ranges[o.Range].lo, ranges[o.Range].hi
				m := map[string]string{"enableCaller": "false", "appender.rec.type": "Rec", "appender.con.type": "Console", "appender.con.layout.type": o.Layout,
					"logger.l.tags": "_c10_t", "logger.l.level": ranges[o.Range].s, "logger.l.appenderRef[0].ref": "rec", "logger.l.appenderRef[1].ref": "con"}
				// further sinks of the same logger: nothing an appender does may call a hook again
				switch o.Sink {
				case 1:
					m["appender.rol.type"], m["appender.rol.fileDir"], m["appender.rol.fileName"], m["appender.rol.rotation"], m["appender.rol.maxAge"] = "RollingFile", scratch, "c10.roll", "h", "10"
					m["logger.l.appenderRef[2].ref"] = "rol"
				case 2:
					m["appender.fil.type"], m["appender.fil.fileDir"], m["appender.fil.fileName"] = "File", scratch, "c10.log"
					m["logger.l.appenderRef[2].ref"] = "fil"
				}
				if o.RefFloor > 0 {
					refLo = levels[o.RefFloor].code
					for k := 0; k < 3; k++ {
						if _, ok := m[fmt.Sprintf("logger.l.appenderRef[%d].ref", k)]; ok {
							m[fmt.Sprintf("logger.l.appenderRef[%d].level", k)] = levels[o.RefFloor].name
						}
					}
				}
				if o.Logger == "sync" {
					m["logger.l.type"] = "Logger"
				} else {
					m["logger.l.type"] = "AsyncLogger"
					m["logger.l.bufferFullPolicy"] = "Block"
				}
				if err := log.Refresh(m); err != nil {
					t.Fatalf("VERIF-INCONCLUSIVE C10: Refresh failed: %v", err)
				}
			default:
				// arbitrary contexts: valued, derived, TODO, and nil (legal to pass, the hooks see what the caller passed)
				var ctx context.Context
				switch o.Ctx {
				case 0:
					ctx = context.WithValue(context.Background(), tokenKey{}, fmt.Sprintf("tok-%d", i))
				case 1:
					c2, cancel := context.WithCancel(context.WithValue(context.TODO(), tokenKey{}, i))
					defer cancel()
					ctx = c2
				case 2:
					ctx = context.WithValue(context.TODO(), tokenKey{}, i)
				default:
					ctx = nil
				}
				id := int64(i + 1)
				genCalls := 0
				fn := func() []log.Field { genCalls++; return []log.Field{log.Int("id", id)} }
				t0, s0, f0 := timeCalls, strCalls, fldCalls
				conBefore := console.Len()
				before := time.Now()
				switch o.Entry {
				case "Trace":
					log.Trace(ctx, tag, fn)
				case "Tracef":
					log.Tracef(ctx, tag, "id=%d", id)
				case "Debug":
					log.Debug(ctx, tag, fn)
				case "Debugf":
					log.Debugf(ctx, tag, "id=%d", id)
				case "Info":
					log.Info(ctx, tag, log.Int("id", id))
				case "Infof":
					log.Infof(ctx, tag, "id=%d", id)
				case "Warn":
					log.Warn(ctx, tag, log.Int("id", id))
				case "Warnf":
					log.Warnf(ctx, tag, "id=%d", id)
				case "Error":
					log.Error(ctx, tag, log.Int("id", id))
				case "Errorf":
					log.Errorf(ctx, tag, "id=%d", id)
				case "Panic":
					log.Panic(ctx, tag, log.Int("id", id))
				case "Panicf":
					log.Panicf(ctx, tag, "id=%d", id)
				case "Fatal":
					log.Fatal(ctx, tag, log.Int("id", id))
				case "Fatalf":
					log.Fatalf(ctx, tag, "id=%d", id)
				default:
					log.Record(ctx, levels[o.Level].l, tag, 1, log.Int("id", id))
				}
				after := time.Now()
				code := levels[o.Level].code
				enabled := lo <= code && code < hi
				where := fmt.Sprintf("op #%d %s (logger %s range [%d,%d), hooks set %v)\nsequence: %s", i, o, logger, lo, hi, set, strings.Join(seq, " "))
				lazy := o.Entry == "Trace" || o.Entry == "Debug"
				if !enabled {
					sawDisabled = true
					if timeCalls != t0 || strCalls != s0 || fldCalls != f0 {
						t.Fatalf("VERIF-VIOLATION C10: a hook ran although the level is disabled (time %d, string %d, fields %d extra calls)\n%s", timeCalls-t0, strCalls-s0, fldCalls-f0, where)
					}
					if lazy && genCalls != 0 {
						t.Fatalf("VERIF-VIOLATION C10: the lazy field generator ran %d times although the level is disabled\n%s", genCalls, where)
					}
					if logger != "builtin" {
						time.Sleep(0)
						if r := vk.Rec("rec"); r != nil && r.Len() != delivered {
							t.Fatalf("VERIF-VIOLATION C10: a disabled call was emitted to the appender\n%s", where)
						}
					}
					if console.Len() != conBefore {
						t.Fatalf("VERIF-VIOLATION C10: a disabled call wrote to the console\n%s", where)
					}
					continue
				}
				if code < refLo {
					// enabled for the serving logger, taken by none of its references: the generator
					// has run exactly once all the same (the hooks at most once each), nothing is written
					vk.Class("enabled-for-logger-but-no-reference-takes-it")
					if lazy && genCalls != 1 {
						t.Fatalf("VERIF-VIOLATION C10: the level is enabled for the serving logger (its references start at level code %s), the lazy field generator ran %d times, expected exactly once\n%s", fmt.Sprint(refLo), genCalls, where)
					}
					if timeCalls-t0 > 1 || strCalls-s0 > 1 || fldCalls-f0 > 1 {
						t.Fatalf("VERIF-VIOLATION C10: a hook ran more than once for one call (time %d, string %d, fields %d)\n%s", timeCalls-t0, strCalls-s0, fldCalls-f0, where)
					}
					if logger == "sync" {
						if r := vk.Rec("rec"); r != nil && r.Len() != delivered {
							t.Fatalf("VERIF-VIOLATION C10: an event below every reference's range reached the appender\n%s", where)
						}
						if console.Len() != conBefore {
							t.Fatalf("VERIF-VIOLATION C10: an event below every reference's range was written to the console\n%s", where)
						}
					}
					continue
				}
				sawEnabled = true
				want := [3]int{t0, s0, f0}
				for h := 0; h < 3; h++ {
					if set[h] {
						want[h]++
					}
				}
				if timeCalls != want[0] || strCalls != want[1] || fldCalls != want[2] {
					t.Fatalf("VERIF-VIOLATION C10: hook invocations for one emitted event: time %d string %d fields %d, expected %d %d %d\n%s", timeCalls-t0, strCalls-s0, fldCalls-f0, want[0]-t0, want[1]-s0, want[2]-f0, where)
				}
				if set[0] && lastTimeCtx != ctx || set[1] && lastStrCtx != ctx || set[2] && lastFldCtx != ctx {
					t.Fatalf("VERIF-VIOLATION C10: a hook was not called with the caller's context\n%s", where)
				}
				if lazy && genCalls != 1 {
					t.Fatalf("VERIF-VIOLATION C10: the lazy field generator ran %d times for an emitted event\n%s", genCalls, where)
				}
				// what the record carries
				wantCS, wantCF := "", "{}"
				var wantTime time.Time
				// hooks run in the order time, string, fields; their values derive from hookSeq
				base := hookSeq
				nset := 0
				for h := 0; h < 3; h++ {
					if set[h] {
						nset++
					}
				}
				k := base - nset
				if set[0] {
					k++
					wantTime = timeFor(k)
				}
				if set[1] {
					k++
					wantCS = csFor(k)
				}
				noCF := true
				if set[2] {
					k++
					if !cfEmpty(k) {
						noCF = false
						wantCF = fmt.Sprintf(`{"cf":"v%d","cn":%d,"id":"ctx"}`, k, k)
					}
				}
				var line string
				if logger == "builtin" {
					line = string(console.Bytes()[conBefore:])
				} else {
					delivered++
					if !waitRec(delivered) {
						t.Fatalf("VERIF-VIOLATION C10: an enabled call was not emitted to the appender\n%s", where)
					}
					it := vk.Rec("rec").Items()[delivered-1]
					if it.ID != id {
						t.Fatalf("VERIF-VIOLATION C10: record #%d carries id %d, expected %d\n%s", delivered, it.ID, id, where)
					}
					if set[0] && !it.Time.Equal(wantTime) {
						t.Fatalf("VERIF-VIOLATION C10: record time %v is not the timestamp hook's value %v\n%s", it.Time, wantTime, where)
					}
					if !set[0] && (it.Time.Before(before.Add(-time.Millisecond)) || it.Time.After(after.Add(time.Millisecond))) {
						t.Fatalf("VERIF-VIOLATION C10: without a timestamp hook the record time %v is outside the call window [%v,%v]\n%s", it.Time, before, after, where)
					}
					if it.CtxString != wantCS || it.CtxJSON != wantCF {
						t.Fatalf("VERIF-VIOLATION C10: record carries context string %q fields %s, the hooks returned %q %s\n%s", it.CtxString, it.CtxJSON, wantCS, wantCF, where)
					}
					// the console appender of the same logger
					deadline := time.Now().Add(10 * time.Second)
					for console.Len() == conBefore && time.Now().Before(deadline) {
						time.Sleep(200 * time.Microsecond)
					}
					for !strings.HasSuffix(console.String(), "\n") && time.Now().Before(deadline) {
						time.Sleep(200 * time.Microsecond)
					}
					line = string(console.Bytes()[conBefore:])
				}
				if strings.Count(line, "\n") != 1 {
					t.Fatalf("VERIF-VIOLATION C10: one emitted event produced %d console lines: %q\n%s", strings.Count(line, "\n"), line, where)
				}
				if set[0] && !strings.Contains(line, vk.ExpTime(wantTime)) {
					t.Fatalf("VERIF-VIOLATION C10: formatted line %q lacks the timestamp hook's time %s\n%s", line, vk.ExpTime(wantTime), where)
				}
				if set[1] && !strings.Contains(line, wantCS) {
					t.Fatalf("VERIF-VIOLATION C10: formatted line %q lacks the context string %q\n%s", line, wantCS, where)
				}
				if set[2] && !noCF {
					ci, ii := strings.Index(line, "cf"), strings.LastIndex(line, "id")
					if ci < 0 || ii < 0 || ci > ii {
						t.Fatalf("VERIF-VIOLATION C10: in the formatted line %q the context fields do not precede the call's fields\n%s", line, where)
					}
				}
			}
		}
		vk.Eval()
		anySet := false
		for _, o := range ops {
			if o.K == "hook" && o.On {
				anySet = true
			}
		}
		if sawEnabled && sawDisabled && anySet {
			vk.NonTrivial(strings.Join(seq, " "))
		}
		vk.Class("final-logger:" + logger + ":" + layout)
		vk.Sample(map[string]any{"sequence": strings.Join(seq, " ")})
	})
}

// TestC10_Concurrent: many goroutines emit at the same time while a hook is deliberately slow.
// Every emitted event must still have had each hook invoked exactly once with its own context.
func TestC10_Concurrent(t *testing.T) {
	vk.Rule(rule)
	type idKey struct{}
	var tcalls, scalls, fcalls atomic.Int64
	log.Destroy()
	vk.ResetRecs()
	log.TimeNow = func(ctx context.Context) time.Time {
		tcalls.Add(1)
		return baseTime.Add(time.Duration(ctx.Value(idKey{}).(int)) * time.Millisecond)
	}
	log.StringFromContext = func(ctx context.Context) string {
		scalls.Add(1)
		runtime.Gosched()
		time.Sleep(5 * time.Microsecond) // widen the window in which another goroutine is also inside record()
		return fmt.Sprintf("cs%d", ctx.Value(idKey{}).(int))
	}
	// even ids: one request-scoped slice shared by all of them (built with append: spare capacity);
	// odd ids: a slice of their own
	shared := append(make([]log.Field, 0, 16), log.String("app", "x"))
	log.FieldsFromContext = func(ctx context.Context) []log.Field {
		fcalls.Add(1)
		if id := ctx.Value(idKey{}).(int); id%2 == 1 {
			return []log.Field{log.Int("cid", id)}
		}
		return shared
	}
	log.Stdout = console
	defer func() {
		log.Destroy()
		log.TimeNow, log.StringFromContext, log.FieldsFromContext = nil, nil, nil
	}()
	// through a synchronous logger (the hooks' results are formatted in the caller's goroutine) and
	// through an asynchronous one (up to a hundred events are in flight between record() and the worker)
	for _, kind := range []string{"Logger", "AsyncLogger"} {
		log.Destroy()
		vk.ResetRecs()
		console.Reset()
		tcalls.Store(0)
		scalls.Store(0)
		fcalls.Store(0)
		cfgm := map[string]string{"enableCaller": "false", "appender.rec.type": "Rec", "appender.con.type": "Console", "appender.con.layout.type": "JSONLayout", "logger.l.type": kind, "logger.l.tags": "_c10_t", "logger.l.appenderRef[0].ref": "rec", "logger.l.appenderRef[1].ref": "con"}
		if kind == "AsyncLogger" {
			cfgm["logger.l.bufferSize"], cfgm["logger.l.bufferFullPolicy"] = "100", "Block"
		}
		if err := log.Refresh(cfgm); err != nil {
			t.Fatalf("VERIF-INCONCLUSIVE C10: %v", err)
		}
		rec := vk.Rec("rec")
		const G, N = 8, 400
		var wg sync.WaitGroup
		for g := 0; g < G; g++ {
			wg.Add(1)
			go func() {
				defer wg.Done()
				for i := 0; i < N; i++ {
					id := g*N + i
					ctx := context.WithValue(context.Background(), idKey{}, id)
					log.Info(ctx, tag, log.Int("id", id))
				}
			}()
		}
		wg.Wait()
		log.Destroy() // the asynchronous logger hands over what is still queued
		items := rec.Items()
		vk.EvalN(int64(len(items)))
		vk.Class("concurrent-emitters:" + kind)
		vk.NonTrivial("concurrent-emitters-8x400-" + kind)
		vk.NonTrivial("concurrent-emitters-slow-hook-" + kind)
		if tcalls.Load() != G*N || scalls.Load() != G*N || fcalls.Load() != G*N {
			t.Fatalf("VERIF-VIOLATION C10: %d events emitted concurrently, hooks ran time=%d string=%d fields=%d times (each must run exactly once per emitted event)", G*N, tcalls.Load(), scalls.Load(), fcalls.Load())
		}
		if len(items) != G*N {
			t.Fatalf("VERIF-VIOLATION C10: %d events emitted, %d recorded", G*N, len(items))
		}
		for _, it := range items {
			wantCF := fmt.Sprintf(`{"cid":%d}`, it.ID)
			if it.ID%2 == 0 {
				wantCF = `{"app":"x"}`
			}
			if it.CtxString != fmt.Sprintf("cs%d", it.ID) || it.CtxJSON != wantCF || !it.Time.Equal(baseTime.Add(time.Duration(it.ID)*time.Millisecond)) {
				t.Fatalf("VERIF-VIOLATION C10: under concurrent emission the record of event id=%d carries context string %q, fields %s, time %v - not what the hooks returned for its own context", it.ID, it.CtxString, it.CtxJSON, it.Time)
			}
		}
		// the formatted lines: context string, context fields and the call's own field belong to one event
		lineRe := regexp.MustCompile(`"ctxString":"cs(\d+)",(?:"app":"x"|"cid":(\d+)),"id":(\d+)\}$`)
		lines := strings.Split(strings.TrimSuffix(console.String(), "\n"), "\n")
		if len(lines) != G*N {
			t.Fatalf("VERIF-VIOLATION C10: %d events emitted, %d formatted lines", G*N, len(lines))
		}
		for _, ln := range lines {
			m := lineRe.FindStringSubmatch(ln)
			if m == nil || m[1] != m[3] || (m[2] != "" && m[2] != m[1]) {
				t.Fatalf("VERIF-VIOLATION C10: under concurrent emission a formatted record mixes the context of one call with the fields of another: %q", ln)
			}
		}
	}
}
