package c15

import (
	"testing"

	"verifharness/vk"
)

func TestMain(m *testing.M) { vk.Main(m) }
