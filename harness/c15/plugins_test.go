package c15

import (
	"fmt"
	"math"
	"sync"

	"github.com/go-spring/log"
)

// Kid is a harness element interface: lets the Probe cover required / optional / list / defaulted
// element shapes with harness-registered plugin types.
type Kid interface{ KidVal() string }

type KidA struct {
	V string `PluginAttribute:"v,default=ka"`
	N int    `PluginAttribute:"numVal,default=1"`
}

func (k *KidA) KidVal() string { return fmt.Sprintf("KidA(v=%s,numVal=%d)", k.V, k.N) }

type KidB struct {
	V string `PluginAttribute:"v"`
	W uint16 `PluginAttribute:"w,default=7"`
}

func (k *KidB) KidVal() string { return fmt.Sprintf("KidB(v=%s,w=%d)", k.V, k.W) }

// ProbeAppender has one attribute of every injectable kind and one element of every shape.
//
// Some of them sit in an embedded, package-private base struct, the way applications share
// fields between their own plugins (the built-in plugins embed exported bases only): a tagged
// exported field is configured wherever it is declared.
type probeCommon struct {
	log.AppenderBase
	Str  string     `PluginAttribute:"str"`
	StrD string     `PluginAttribute:"strDef,default=dflt"`
	I16  int16      `PluginAttribute:"i16,default=16"`
	Lay  log.Layout `PluginElement:"Layout,default=TextLayout"`
	Opt  Kid        `PluginElement:"KidOpt?"`
}

type ProbeAppender struct {
	probeCommon
	B    bool                 `PluginAttribute:"flagOn,default=true"`
	I8   int8                 `PluginAttribute:"i8,default=-8"`
	I32  int32                `PluginAttribute:"i32Val,default=32"`
	I64  int64                `PluginAttribute:"i64,default=-64"`
	I    int                  `PluginAttribute:"plainInt,default=5"`
	U8   uint8                `PluginAttribute:"u8,default=8"`
	U16  uint16               `PluginAttribute:"u16,default=16"`
	U32  uint32               `PluginAttribute:"u32Val,default=32"`
	U64  uint64               `PluginAttribute:"u64,default=64"`
	U    uint                 `PluginAttribute:"plainUint,default=6"`
	F32  float32              `PluginAttribute:"f32,default=1.5"`
	F64  float64              `PluginAttribute:"f64Val,default=2.25"`
	Lvl  log.LevelRange       `PluginAttribute:"lvl,default=INFO~ERROR"`
	Rot  log.TimeRotation     `PluginAttribute:"rot,default=h"`
	Pol  log.BufferFullPolicy `PluginAttribute:"fullPolicy,default=Discard"`
	Req  Kid                  `PluginElement:"Kid"`
	List []Kid                `PluginElement:"KidList"`
	Def  []Kid                `PluginElement:"KidDef,default=KidA;KidA"`

	mu     sync.Mutex
	events []int64
	files  []string
}

var (
	probeMu sync.Mutex
	probes  = map[string]map[string]string{}
	probeEv = map[string]*ProbeAppender{}
)

func resetProbes() {
	probeMu.Lock()
	probes = map[string]map[string]string{}
	probeEv = map[string]*ProbeAppender{}
	probeMu.Unlock()
}

func layoutDesc(l log.Layout) string {
	switch x := l.(type) {
	case nil:
		return "<nil>"
	case *log.TextLayout:
		return fmt.Sprintf("TextLayout(%d)", x.FileLineLength)
	case *log.JSONLayout:
		return fmt.Sprintf("JSONLayout(%d)", x.FileLineLength)
	}
	return fmt.Sprintf("%T", l)
}

func kidDesc(k Kid) string {
	if k == nil {
		return "<nil>"
	}
	return k.KidVal()
}

func (p *ProbeAppender) snapshot() map[string]string {
	m := map[string]string{
		"str": p.Str, "strDef": p.StrD, "flagOn": fmt.Sprint(p.B),
		"i8": fmt.Sprint(p.I8), "i16": fmt.Sprint(p.I16), "i32Val": fmt.Sprint(p.I32), "i64": fmt.Sprint(p.I64), "plainInt": fmt.Sprint(p.I),
		"u8": fmt.Sprint(p.U8), "u16": fmt.Sprint(p.U16), "u32Val": fmt.Sprint(p.U32), "u64": fmt.Sprint(p.U64), "plainUint": fmt.Sprint(p.U),
		"f32":        fmt.Sprintf("%08x", math.Float32bits(p.F32)),
		"f64Val":     fmt.Sprintf("%016x", math.Float64bits(p.F64)),
		"lvl":        fmt.Sprintf("%d~%d", p.Lvl.MinLevel.Code(), p.Lvl.MaxLevel.Code()),
		"rot":        p.Rot.Interval.String(),
		"fullPolicy": fmt.Sprint(int(p.Pol)),
		"layout":     layoutDesc(p.Lay),
		"kid":        kidDesc(p.Req),
		"kidOpt":     kidDesc(p.Opt),
	}
	l := ""
	for _, k := range p.List {
		l += kidDesc(k) + ";"
	}
	m["kidList"] = l
	d := ""
	for _, k := range p.Def {
		d += kidDesc(k) + ";"
	}
	m["kidDef"] = d
	return m
}

func (p *ProbeAppender) Start() error {
	probeMu.Lock()
	probes[p.Name] = p.snapshot()
	probeEv[p.Name] = p
	probeMu.Unlock()
	return nil
}
func (p *ProbeAppender) Stop() {}
func (p *ProbeAppender) Append(e *log.Event) {
	id := int64(-1)
	for _, f := range e.Fields {
		if f.Key == "id" {
			id = int64(f.Num)
		}
	}
	p.mu.Lock()
	p.events = append(p.events, id)
	p.files = append(p.files, e.File)
	p.mu.Unlock()
}
func (p *ProbeAppender) Write(b []byte) {}

func init() {
	log.RegisterPlugin[ProbeAppender]("Probe", log.PluginTypeAppender)
	for _, typ := range []string{"kid", "kidOpt", "kidList", "kidDef"} {
		log.RegisterPlugin[KidA]("KidA", log.PluginType(typ))
		log.RegisterPlugin[KidB]("KidB", log.PluginType(typ))
	}
	// the plugin used when a list element carries no explicit type is the one named like the element
	log.RegisterPlugin[KidA]("KidList", log.PluginType("kidList"))
	log.RegisterPlugin[KidA]("KidDef", log.PluginType("kidDef"))
}
