// C19 - a failed rotation or unwritable target never loses the log call path.
//
// Fault sequences: the log directory is renamed away and restored at generated offsets relative to
// real 1 s interval boundaries and to the writes of 1-4 goroutines (bare appender and Refresh-built
// logger); static faults: closed / never opened / full target files, failing console stream.
package c19

import (
	"context"
	"errors"
	"fmt"
	"hash/crc32"
	"os"
	"path/filepath"
	"regexp"
	"sort"
	"strconv"
	"strings"
	"sync"
	"sync/atomic"
	"syscall"
	"testing"
	"time"

	"github.com/go-spring/log"
	"pgregory.net/rapid"

	"verifharness/vk"
)

const rule = "fault time-lines over 3-6 one-second boundaries: 1-2 outage windows (directory renamed away, later restored) placed before/across/between boundaries x 1-4 writers with generated write periods, through the bare rolling appender or a Refresh-built logger; static faults (file closed, never opened, /dev/full, missing directory, failing or short-writing console stream) x call path; non-trivial = an outage covering >=1 boundary with >=1 write inside it, or a static fault exercised through a log call; distinct by the quantised time-line / (fault, path)"

func init() {
	log.RegisterTimeRotation("3s", log.TimeRotation{Interval: 3 * time.Second})
	log.RegisterTimeRotation("1s", log.TimeRotation{Interval: time.Second})
}

var tagT = log.RegisterTag("_c19_t")

type window struct{ FromMS, ToMS int }

type timeline struct {
	DurMS     int
	Outages   []window
	Writers   int
	PeriodMS  []int // per writer
	ViaLogger bool
	// RollingLogger (ViaLogger, not AsyncRoot): the tag is served by a logger of type RollingFile,
	// which builds and owns its rolling appender itself, instead of a Logger referring to one
	RollingLogger bool
	Bursters      int // goroutines that hit every boundary together
	// AsFile: while the directory is away a regular file sits at its path (the path exists, is not a directory)
	AsFile bool
	// Relink: the configured directory is a symbolic link (.../current/logs); an outage takes the link
	// and the directory behind it away, and ends with the link pointing at a new, empty directory
	// (a deployment switched over). The configured path is valid again: creation resumes there.
	Relink bool
	// Companion: a second rolling appender (other name, interval of this many seconds, 0 = none)
	// lives in the same directory and is written to every 100 ms: one appender's failed rotation is
	// that appender's business only
	Companion int
	// Aligned: the time-line starts 100 ms after a boundary of the companion's interval, so that the
	// generated outage covers the next boundary both appenders share and ends before the main
	// appender's following boundary
	Aligned bool
	// IntervalS: the main appender's rotation interval in seconds (0 = 1). With 3 s and a writer that
	// is silent for more than a second after a boundary, the attempt that fails comes late in its
	// interval - the next one is still due at the next boundary, not an interval after the failure.
	IntervalS int
	// AsyncRoot (ViaLogger): the rolling appender sits behind an asynchronous root logger with the
	// Block policy and a minimal buffer, and Flooders goroutines keep that buffer full around every
	// boundary: whatever the appender does about a failed rotation, it does while the logger it
	// serves is saturated
	AsyncRoot bool
	Flooders  int
}

func (tl timeline) String() string {
	return fmt.Sprintf("dur=%dms outages=%v writers=%d periods=%v viaLogger=%v bursters=%d asFile=%v companion=%ds interval=%ds asyncRoot=%v flooders=%d rollingLogger=%v relink=%v", tl.DurMS, tl.Outages, tl.Writers, tl.PeriodMS, tl.ViaLogger, tl.Bursters, tl.AsFile, tl.Companion, max(tl.IntervalS, 1), tl.AsyncRoot, tl.Flooders, tl.RollingLogger, tl.Relink)
}

func genTimeline(t *rapid.T, label string) timeline {
	tl := timeline{DurMS: rapid.IntRange(3200, 6000).Draw(t, label+"dur"), Writers: rapid.IntRange(1, 4).Draw(t, label+"writers"), ViaLogger: rapid.Bool().Draw(t, label+"viaLogger"), RollingLogger: rapid.Bool().Draw(t, label+"rollingLogger")}
	for w := 0; w < tl.Writers; w++ {
		tl.PeriodMS = append(tl.PeriodMS, rapid.SampledFrom([]int{7, 23, 60, 150, 400}).Draw(t, label+"period"))
	}
	n := rapid.SampledFrom([]int{1, 1, 2}).Draw(t, label+"noutages")
	from := 100
	for i := 0; i < n && from < tl.DurMS-900; i++ {
		a := rapid.IntRange(from, tl.DurMS-800).Draw(t, label+"from")
		length := rapid.SampledFrom([]int{50, 300, 700, 1100, 1800, 2500}).Draw(t, label+"len")
		b := min(a+length, tl.DurMS-600)
		tl.Outages = append(tl.Outages, window{a, b})
		from = b + 200
	}
	tl.AsFile = rapid.IntRange(0, 3).Draw(t, label+"asFile") == 0
	tl.Relink = !tl.AsFile && rapid.IntRange(0, 3).Draw(t, label+"relink") == 0
	tl.Companion = rapid.SampledFrom([]int{0, 0, 2, 3}).Draw(t, label+"companion")
	if tl.Companion > 0 && rapid.Bool().Draw(t, label+"aligned") {
		align(t, label, &tl)
	}
	return tl
}

// sparse3 turns tl into a one-writer time-line with a 3 s interval and a writer that is often silent
// for more than a second after a boundary; the outage covers one boundary.
func sparse3(t *rapid.T, label string, tl *timeline) {
	// The time-line starts 100 ms after a boundary of the 3 s interval (Aligned); the writer's period
	// puts its first write after the next boundary B1 a good second behind it, inside the outage
	// (the attempt that fails comes late in its interval); the directory is back before B2, and the
	// first write after B2 comes earlier in its interval than the failing one did in its own.
	period := rapid.SampledFrom([]int{1350, 1330, 1340}).Draw(t, label+"periodS") // writes at +0.1, 1.45, 2.8, 4.15 (B1+1.15), 5.5, 6.85 (B2+0.85) s
	*tl = timeline{IntervalS: 3, Aligned: true, Companion: 3, Writers: 1, PeriodMS: []int{period}, DurMS: 8400, ViaLogger: tl.ViaLogger, AsFile: tl.AsFile}
	// ... and the directory is back before the writer's last write of that interval (at about +5.45 s):
	// that write finds the directory there and still must not create a file
	tl.Outages = []window{{2950 + rapid.IntRange(0, 600).Draw(t, label+"fromS"), 5240 + rapid.IntRange(0, 100).Draw(t, label+"toS")}}
}

// saturated turns tl into a time-line through an asynchronous, blocking root logger that flooders
// keep saturated around every boundary.
func saturated(t *rapid.T, label string, tl *timeline) {
	*tl = timeline{DurMS: rapid.IntRange(3300, 4600).Draw(t, label+"durF"), Writers: 1, PeriodMS: []int{23}, ViaLogger: true, AsyncRoot: true, Flooders: rapid.SampledFrom([]int{4, 6, 3}).Draw(t, label+"flooders"), Outages: tl.Outages, AsFile: tl.AsFile}
	if len(tl.Outages) == 0 || tl.Outages[0].ToMS-tl.Outages[0].FromMS < 1100 {
		from := rapid.IntRange(200, 1500).Draw(t, label+"fromF")
		tl.Outages = []window{{from, from + rapid.SampledFrom([]int{1300, 1900}).Draw(t, label+"lenF")}}
	}
}

// align turns tl into a one-writer time-line with a companion appender whose shared boundary
// falls into the outage (see timeline.Aligned).
func align(t *rapid.T, label string, tl *timeline) {
	if tl.Companion == 0 {
		tl.Companion = rapid.SampledFrom([]int{2, 3}).Draw(t, label+"companionA")
	}
	c := tl.Companion * 1000
	tl.Aligned, tl.Writers, tl.PeriodMS, tl.Bursters = true, 1, []int{rapid.SampledFrom([]int{60, 23, 150}).Draw(t, label+"periodA")}, 0
	tl.Outages = []window{{c - 100 - rapid.IntRange(50, 600).Draw(t, label+"before"), c - 100 + rapid.IntRange(150, 750).Draw(t, label+"after")}}
	tl.DurMS = c + 2300
}

type rec struct {
	w, seq     int
	start, end time.Time
}

type outcome struct {
	err              error
	boundaryInOutage bool
	writesInOutage   int
	files            int
}

var lineRe = regexp.MustCompile(`w(\d+):(\d+):([0-9a-f]{8})`)
var nameRe = regexp.MustCompile(`^roll\.log\.(\d{14})$`)
var companionRe = regexp.MustCompile(`^other\.log\.(\d{14})$`)

func runTimeline(tl timeline, parent string) outcome {
	iv := time.Duration(max(tl.IntervalS, 1)) * time.Second
	dir := filepath.Join(parent, "logs")
	away := filepath.Join(parent, "logs.away")
	realDir, generation := "", 0
	if tl.Relink {
		realDir = filepath.Join(parent, "real0")
		_ = os.MkdirAll(realDir, 0o755)
		if err := os.Symlink(realDir, dir); err != nil {
			return outcome{err: fmt.Errorf("VERIF-INCONCLUSIVE: %v", err)}
		}
		vk.Class("outage-ends-with-relinked-directory")
	} else {
		_ = os.MkdirAll(dir, 0o755)
	}
	var write func(line string) (panicked any, blocked bool)
	var rawWrite func(line string) // no watchdog goroutine in the way: used by the boundary bursts
	var stop func()
	if tl.ViaLogger {
		// one time-line at a time uses the global configuration (see TestC19_Outage)
		m := map[string]string{
			"enableCaller": "false", "appender.r.type": "RollingFile", "appender.r.fileDir": dir, "appender.r.fileName": "roll.log", "appender.r.rotation": strconv.Itoa(max(tl.IntervalS, 1)) + "s", "appender.r.maxAge": "100",
			"logger.l.type": "Logger", "logger.l.tags": "_c19_t", "logger.l.appenderRef.ref": "r",
		}
		if tl.RollingLogger && !tl.AsyncRoot {
			m = map[string]string{
				"enableCaller": "false", "appender.unused.type": "Discard",
				"logger.l.type": "RollingFile", "logger.l.tags": "_c19_t", "logger.l.fileDir": dir, "logger.l.fileName": "roll.log", "logger.l.rotation": strconv.Itoa(max(tl.IntervalS, 1)) + "s", "logger.l.maxAge": "100", "logger.l.async": "false", "logger.l.separate": "false",
			}
		}
		if tl.AsyncRoot {
			// no logger lists the tag: it is served by root, which is asynchronous and blocks when full
			m = map[string]string{
				"enableCaller": "false", "appender.r.type": "RollingFile", "appender.r.fileDir": dir, "appender.r.fileName": "roll.log", "appender.r.rotation": "1s", "appender.r.maxAge": "100",
				"logger.root.type": "AsyncLogger", "logger.root.bufferFullPolicy": "Block", "logger.root.bufferSize": "100", "logger.root.appenderRef.ref": "r",
			}
		}
		err := log.Refresh(m)
		if err != nil {
			return outcome{err: fmt.Errorf("VERIF-INCONCLUSIVE: %v", err)}
		}
		switch {
		case tl.AsyncRoot:
			vk.Class("path:async-root+rolling-appender")
		case tl.RollingLogger:
			vk.Class("path:rolling-file-logger")
		default:
			vk.Class("path:logger+rolling-appender")
		}
		write = func(line string) (any, bool) {
			done, p := vk.Within(10*time.Second, func() { log.Info(context.Background(), tagT, log.String("rec", line)) })
			return p, !done
		}
		rawWrite = func(line string) { log.Info(context.Background(), tagT, log.String("rec", line)) }
		stop = log.Destroy
	} else {
		a := &log.RollingFileAppender{AppenderBase: log.AppenderBase{Name: "r"}, Layout: &log.TextLayout{BaseLayout: log.BaseLayout{FileLineLength: 48}},
			FileDir: dir, FileName: "roll.log", Rotation: log.TimeRotation{Interval: iv}, MaxAge: 100}
		if err := a.Start(); err != nil {
			return outcome{err: fmt.Errorf("VERIF-INCONCLUSIVE: %v", err)}
		}
		write = func(line string) (any, bool) {
			done, p := vk.Within(10*time.Second, func() { a.Write([]byte(line + "\n")) })
			return p, !done
		}
		rawWrite = func(line string) { a.Write([]byte(line + "\n")) }
		stop = a.Stop
	}
	if tl.Aligned {
		iv := time.Duration(tl.Companion) * time.Second
		now := time.Now()
		time.Sleep(now.Truncate(iv).Add(iv + 100*time.Millisecond).Sub(now))
	}
	startT := time.Now()
	endT := startT.Add(time.Duration(tl.DurMS) * time.Millisecond)
	var companionDone chan any
	if tl.Companion > 0 {
		comp := &log.RollingFileAppender{AppenderBase: log.AppenderBase{Name: "o"}, Layout: &log.TextLayout{BaseLayout: log.BaseLayout{FileLineLength: 48}},
			FileDir: dir, FileName: "other.log", Rotation: log.TimeRotation{Interval: time.Duration(tl.Companion) * time.Second}, MaxAge: 100}
		if err := comp.Start(); err != nil {
			return outcome{err: fmt.Errorf("VERIF-INCONCLUSIVE: %v", err)}
		}
		companionDone = make(chan any, 1)
		go func() {
			defer func() { companionDone <- recover() }()
			for n := 0; time.Now().Before(endT); n++ {
				comp.Write([]byte("companion " + strconv.Itoa(n) + "\n"))
				time.Sleep(100 * time.Millisecond)
			}
			comp.Stop()
		}()
	}
	var mu sync.Mutex
	var all []rec
	var firstErr error
	var wg sync.WaitGroup
	for w := 0; w < tl.Writers; w++ {
		wg.Add(1)
		go func() {
			defer wg.Done()
			seq := 0
			var mine []rec
			for time.Now().Before(endT) {
				line := fmt.Sprintf("w%d:%d:%08x", w, seq, crc32.ChecksumIEEE([]byte(strconv.Itoa(w)+"/"+strconv.Itoa(seq))))
				t0 := time.Now()
				p, blocked := write(line)
				t1 := time.Now()
				if p != nil || blocked {
					mu.Lock()
					if firstErr == nil {
						if blocked {
							firstErr = fmt.Errorf("VERIF-HANG a write/log call did not return within 10 s")
						} else {
							firstErr = fmt.Errorf("a write/log call panicked: %v", p)
						}
					}
					mu.Unlock()
					return
				}
				mine = append(mine, rec{w, seq, t0, t1})
				seq++
				time.Sleep(time.Duration(tl.PeriodMS[w]) * time.Millisecond)
			}
			mu.Lock()
			all = append(all, mine...)
			mu.Unlock()
		}()
	}
	// boundary-aimed bursts: several goroutines arrive at the rotation decision of the same boundary
	// together (they wait until just before each boundary and then write back to back for a few ms)
	for b := 0; b < tl.Bursters; b++ {
		wg.Add(1)
		go func() {
			defer wg.Done()
			seq := 0
			var mine []rec
			for {
				now := time.Now()
				next := now.Truncate(time.Second).Add(time.Second)
				if next.After(endT) {
					break
				}
				lines := make([]string, 6)
				for i := range lines {
					lines[i] = fmt.Sprintf("w%d:%d:%08x", 100+b, seq+i, crc32.ChecksumIEEE([]byte(strconv.Itoa(100+b)+"/"+strconv.Itoa(seq+i))))
				}
				// The goroutines spin all the way to the boundary. (In this sandbox a parked thread
				// takes up to a timer tick, 4 ms, to wake and the scheduler hands waiting goroutines
				// to processors one wake-up at a time: after a sleep they reach the boundary up to a
				// millisecond apart; spinning, within a few hundred nanoseconds.)
				for time.Now().Before(next) { // busy wait: all of them leave together
				}
				for _, line := range lines {
					t0 := time.Now()
					if p := vk.Catch(func() { rawWrite(line) }); p != nil {
						mu.Lock()
						if firstErr == nil {
							firstErr = fmt.Errorf("a write/log call panicked: %v", p)
						}
						mu.Unlock()
						return
					}
					mine = append(mine, rec{100 + b, seq, t0, time.Now()})
					seq++
				}
			}
			mu.Lock()
			all = append(all, mine...)
			mu.Unlock()
		}()
	}
	// flooders: keep the asynchronous logger's buffer full around every boundary
	for f := 0; f < tl.Flooders; f++ {
		wg.Add(1)
		go func() {
			defer wg.Done()
			seq := 0
			var mine []rec
			for {
				now := time.Now()
				next := now.Truncate(time.Second).Add(time.Second)
				if next.After(endT) {
					break
				}
				time.Sleep(next.Sub(now) - 25*time.Millisecond)
				for time.Now().Before(next.Add(25 * time.Millisecond)) {
					line := fmt.Sprintf("w%d:%d:%08x", 200+f, seq, crc32.ChecksumIEEE([]byte(strconv.Itoa(200+f)+"/"+strconv.Itoa(seq))))
					t0 := time.Now()
					if p := vk.Catch(func() { rawWrite(line) }); p != nil {
						mu.Lock()
						if firstErr == nil {
							firstErr = fmt.Errorf("a write/log call panicked: %v", p)
						}
						mu.Unlock()
						return
					}
					mine = append(mine, rec{200 + f, seq, t0, time.Now()})
					seq++
				}
			}
			mu.Lock()
			all = append(all, mine...)
			mu.Unlock()
		}()
	}
	// the fault injector
	type span struct{ from, to, fromDone, toBegin time.Time } // from/to enclose the outage, fromDone/toBegin lie inside it
	var spans []span
	for _, o := range tl.Outages {
		time.Sleep(time.Until(startT.Add(time.Duration(o.FromMS) * time.Millisecond)))
		t0 := time.Now()
		if tl.Relink {
			if err := os.Remove(dir); err != nil {
				return outcome{err: fmt.Errorf("VERIF-INCONCLUSIVE: unlink: %v", err)}
			}
			if err := os.Rename(realDir, realDir+".gone"); err != nil {
				return outcome{err: fmt.Errorf("VERIF-INCONCLUSIVE: rename: %v", err)}
			}
			t1 := time.Now()
			time.Sleep(time.Until(startT.Add(time.Duration(o.ToMS) * time.Millisecond)))
			t2 := time.Now()
			generation++
			realDir = filepath.Join(parent, fmt.Sprintf("real%d", generation))
			_ = os.MkdirAll(realDir, 0o755)
			if err := os.Symlink(realDir, dir); err != nil {
				return outcome{err: fmt.Errorf("VERIF-INCONCLUSIVE: relink: %v", err)}
			}
			spans = append(spans, span{t0, time.Now(), t1, t2})
			continue
		}
		if err := os.Rename(dir, away); err != nil {
			return outcome{err: fmt.Errorf("VERIF-INCONCLUSIVE: rename: %v", err)}
		}
		if tl.AsFile {
			_ = os.WriteFile(dir, []byte("not a directory\n"), 0o644)
		}
		t1 := time.Now()
		time.Sleep(time.Until(startT.Add(time.Duration(o.ToMS) * time.Millisecond)))
		t2 := time.Now()
		if tl.AsFile {
			_ = os.Remove(dir)
		}
		if err := os.Rename(away, dir); err != nil {
			return outcome{err: fmt.Errorf("VERIF-INCONCLUSIVE: rename back: %v", err)}
		}
		spans = append(spans, span{t0, time.Now(), t1, t2})
	}
	if done, _ := vk.Within(time.Until(endT)+15*time.Second, wg.Wait); !done {
		return outcome{err: fmt.Errorf("VERIF-HANG a write/log call issued at an interval boundary had not returned 15 s after the end of the time-line")}
	}
	if companionDone != nil {
		select {
		case p := <-companionDone:
			if p != nil {
				return outcome{err: fmt.Errorf("a write to the second rolling appender in the same directory panicked: %v", p)}
			}
		case <-time.After(15 * time.Second):
			return outcome{err: fmt.Errorf("VERIF-HANG a write to the second rolling appender in the same directory did not return")}
		}
	}
	if p := vk.Catch(stop); p != nil {
		return outcome{err: fmt.Errorf("Stop/Destroy panicked after the outage: %v", p)}
	}
	if firstErr != nil {
		return outcome{err: firstErr}
	}
	if tl.Relink {
		// the files of the earlier directories (the one open during an outage kept being written
		// there) are judged together with those of the directory the link points at now
		for g := 0; g < generation; g++ {
			old := filepath.Join(parent, fmt.Sprintf("real%d.gone", g))
			es, _ := os.ReadDir(old)
			for _, e := range es {
				b, _ := os.ReadFile(filepath.Join(old, e.Name()))
				f, err := os.OpenFile(filepath.Join(realDir, e.Name()), os.O_CREATE|os.O_WRONLY|os.O_APPEND, 0o644)
				if err == nil {
					_, _ = f.Write(b)
					_ = f.Close()
				}
			}
		}
	}
	// ---- oracle
	ents, _ := os.ReadDir(dir)
	type key struct{ w, seq int }
	found := map[key]int{}
	fileOf := map[key]time.Time{}
	for _, e := range ents {
		if tl.Companion > 0 && companionRe.MatchString(e.Name()) {
			continue
		}
		m := nameRe.FindStringSubmatch(e.Name())
		if m == nil {
			return outcome{err: fmt.Errorf("unexpected file %q in the log directory", e.Name())}
		}
		nt, _ := time.ParseInLocation("20060102150405", m[1], time.Local)
		b, _ := os.ReadFile(filepath.Join(dir, e.Name()))
		for _, ln := range strings.Split(string(b), "\n") {
			if ln == "" {
				continue
			}
			lm := lineRe.FindStringSubmatch(ln)
			if lm == nil {
				return outcome{err: fmt.Errorf("file %s holds a damaged record %.80q", e.Name(), ln)}
			}
			w, _ := strconv.Atoi(lm[1])
			s, _ := strconv.Atoi(lm[2])
			found[key{w, s}]++
			fileOf[key{w, s}] = nt
		}
	}
	out := outcome{files: len(ents)}
	for _, sp := range spans {
		if !sp.from.Truncate(iv).Equal(sp.to.Truncate(iv)) {
			out.boundaryInOutage = true
		}
	}
	sort.Slice(all, func(i, j int) bool { return all[i].start.Before(all[j].start) })
	for _, r := range all {
		k := key{r.w, r.seq}
		if found[k] != 1 {
			during := ""
			for _, sp := range spans {
				if r.start.After(sp.from) && r.start.Before(sp.to) {
					during = " (issued while the directory was away)"
				}
			}
			return outcome{err: fmt.Errorf("record writer=%d seq=%d written at %s%s is present %d times after restoration, expected exactly once", r.w, r.seq, r.start.Format("15:04:05.000"), during, found[k])}
		}
		for _, sp := range spans {
			if r.start.After(sp.from) && r.end.Before(sp.to) {
				out.writesInOutage++
			}
			// creation is attempted again at the next boundary: with one writer, a write issued
			// after the first boundary following restoration sits in a file created at/after it
			if tl.Writers == 1 && tl.Bursters == 0 {
				b := sp.to.Truncate(iv).Add(iv)
				later := false
				for _, o := range spans {
					if o.from.After(sp.to) && o.from.Before(b.Add(iv)) {
						later = true // another outage begins around that boundary: not judged
					}
				}
				if !later && r.start.After(b.Add(5*time.Millisecond)) && fileOf[k].Before(b.Add(-5*time.Millisecond)) {
					return outcome{err: fmt.Errorf("creation was not attempted again at the boundary after restoration: record seq=%d issued at %s (directory restored at %s, next boundary %s) still went to the file named %s", r.seq, r.start.Format("15:04:05.000"), sp.to.Format("15:04:05.000"), b.Format("15:04:05"), fileOf[k].Format("15:04:05"))}
				}
			}
		}
	}
	if len(found) != len(all) {
		return outcome{err: fmt.Errorf("the files hold %d distinct records, %d were written", len(found), len(all))}
	}
	// every call returns while the directory is away - it is not parked until the directory is back
	for _, r := range all {
		for _, sp := range spans {
			if r.start.After(sp.fromDone) && r.start.Before(sp.toBegin.Add(-1500*time.Millisecond)) && r.end.After(sp.to) {
				return outcome{err: fmt.Errorf("the call writer=%d seq=%d began at %s while the directory was away (%s .. %s) and returned only at %s, after the directory was back: it was held for the rest of the outage", r.w, r.seq, r.start.Format("15:04:05.000"), sp.from.Format("15:04:05.000"), sp.to.Format("15:04:05.000"), r.end.Format("15:04:05.000"))}
			}
		}
	}
	// creation is attempted at a boundary, not in the middle of an interval: when a boundary fell
	// into an outage and a write call began after it and returned before the directory came back,
	// that call made the attempt (and failed); no file is named for that second - the next attempt
	// belongs to the next boundary
	// the same with longer intervals, where a file is named for the second of its creation: once a
	// call has made the (failing) attempt of an interval, no file is created later in that interval
	for _, sp := range spans {
		if iv == time.Second {
			break
		}
		for b := sp.from.Truncate(iv); b.Before(sp.to); b = b.Add(iv) {
			var first *rec // the first call that began in [b, b+iv) while the directory was away and returned well before it was back
			for i := range all {
				r := &all[i]
				if r.start.After(b) && r.start.Before(b.Add(iv)) && r.start.After(sp.fromDone) && r.end.Before(sp.toBegin.Add(-200*time.Millisecond)) && (first == nil || r.start.Before(first.start)) {
					first = r
				}
			}
			if first == nil {
				continue
			}
			for _, e := range ents {
				m := nameRe.FindStringSubmatch(e.Name())
				if m == nil {
					continue
				}
				nt, _ := time.ParseInLocation("20060102150405", m[1], time.Local)
				if nt.After(first.end) && nt.Before(b.Add(iv)) {
					return outcome{err: fmt.Errorf("the file %s was created in the middle of the interval that began at %s: the call at %s had made that interval's attempt while the directory was away (%s .. %s) - creation is due again at the next boundary (%s), not before", e.Name(), b.Format("15:04:05"), first.start.Format("15:04:05.000"), sp.from.Format("15:04:05.000"), sp.to.Format("15:04:05.000"), b.Add(iv).Format("15:04:05"))}
				}
			}
		}
	}
	for _, sp := range spans {
		if iv != time.Second {
			break // a file is named for the second of its creation: only with 1 s intervals is that the boundary
		}
		for b := sp.from.Truncate(time.Second).Add(time.Second); b.Before(sp.to); b = b.Add(time.Second) {
			if !sp.fromDone.Before(b) {
				continue
			}
			attempted := false
			for _, r := range all {
				if r.start.After(b) && r.end.Before(sp.toBegin.Add(-200*time.Millisecond)) { // margin: the elected goroutine syncs and closes an old file before it creates
					attempted = true
					break
				}
			}
			if !attempted {
				continue
			}
			for _, e := range ents {
				if m := nameRe.FindStringSubmatch(e.Name()); m != nil && m[1] == b.Format("20060102150405") {
					return outcome{err: fmt.Errorf("the file %s is named for the boundary %s, which fell into the outage (%s .. %s) and was followed by a write inside the outage: it was created in the middle of the interval instead of creation being attempted again at the next boundary", e.Name(), b.Format("15:04:05"), sp.from.Format("15:04:05.000"), sp.to.Format("15:04:05.000"))}
				}
			}
		}
	}
	return out
}

func TestC19_Outage(t *testing.T) {
	vk.Rule(rule)
	vk.Assume("the wall clock does not step during a run; boundary comparisons use a 5 ms margin")
	base := vk.Scratch("c19")
	batch := 0
	rapid.Check(t, func(t *rapid.T) {
		const K = 6
		var tls []timeline
		usedLogger := false
		for i := 0; i < K; i++ {
			tl := genTimeline(t, fmt.Sprintf("t%d", i))
			if i == 1 && !tl.Aligned { // every batch has one time-line with a companion appender sharing a failed boundary
				align(t, "t1", &tl)
			}
			if i == 2 { // ... one with a 3 s interval and a sparse writer
				sparse3(t, "t2", &tl)
			}
			if i == 0 && rapid.Bool().Draw(t, "saturatedBatch") {
				// ... and, in half of the batches, one through a saturated asynchronous root logger
				// (it owns the global configuration of this batch)
				saturated(t, "t0", &tl)
			}
			if tl.ViaLogger {
				if usedLogger {
					tl.ViaLogger = false // the global configuration serves one time-line per batch
				}
				usedLogger = true
			}
			tls = append(tls, tl)
		}
		batch++
		log.Destroy()
		outs := make([]outcome, K)
		var wg sync.WaitGroup
		for i := range tls {
			wg.Add(1)
			go func() {
				defer wg.Done()
				parent := filepath.Join(base, fmt.Sprintf("b%d_%d", batch, i))
				_ = os.MkdirAll(parent, 0o755)
				outs[i] = runTimeline(tls[i], parent)
				if outs[i].err == nil {
					_ = os.RemoveAll(parent)
				}
			}()
		}
		wg.Wait()
		for i, o := range outs { // a call that never returned: report it before anything else can wait for it
			if o.err != nil && strings.Contains(o.err.Error(), "VERIF-HANG") {
				vk.HardFail("c19-hang", map[string]any{"timeline": tls[i]}, "C19: %v; time-line: %s", o.err, tls[i])
			}
		}
		if done, p := vk.Within(30*time.Second, log.Destroy); !done || p != nil {
			vk.HardFail("c19-hang", map[string]any{"timelines": tls}, "C19: Destroy after the outage time-lines blocked or panicked (%v)", p)
		}
		for i, o := range outs {
			vk.Eval()
			vk.Class(fmt.Sprintf("outage:writers:%d", tls[i].Writers))
			if tls[i].ViaLogger {
				vk.Class("outage:via-logger")
			}
			if o.boundaryInOutage && o.writesInOutage > 0 {
				vk.Class("outage:covers-boundary-with-writes")
				vk.NonTrivial(tls[i].String())
			}
			vk.Sample(map[string]any{"timeline": tls[i].String(), "files": o.files, "writes_in_outage": o.writesInOutage})
			if o.err != nil {
				if strings.Contains(o.err.Error(), "VERIF-INCONCLUSIVE") {
					t.Fatalf("%v", o.err)
				}
				if strings.Contains(o.err.Error(), "VERIF-HANG") {
					vk.HardFail("c19-hang", map[string]any{"timeline": tls[i]}, "C19: %v; time-line: %s", o.err, tls[i])
				}
				p := vk.SaveCase("c19", map[string]any{"timeline": tls[i], "error": o.err.Error(), "schedule_dependent": true})
				t.Fatalf("VERIF-VIOLATION C19: %v\ntime-line: %s (case %s)", o.err, tls[i], p)
			}
		}
	})
}

// ---------------------------------------------------------------- static faults

type badWriter struct{ mode string }

func (b badWriter) Write(p []byte) (int, error) {
	switch b.mode {
	case "error":
		return 0, errors.New("sink broken")
	case "short":
		return len(p) / 2, nil
	default:
		return len(p), errors.New("sink claims success and failure")
	}
}

func TestC19_Static(t *testing.T) {
	vk.Rule(rule)
	base := vk.Scratch("c19s")
	n := 0
	text := func() log.Layout { return &log.TextLayout{BaseLayout: log.BaseLayout{FileLineLength: 48}} }
	rapid.Check(t, func(t *rapid.T) {
		fault := rapid.SampledFrom([]string{"file-closed", "file-never-opened", "file-devfull", "rolling-missing-dir", "rolling-stopped", "console-error", "console-short", "console-both", "refresh-file-missing-dir", "logger-file-closed-under-it", "logger-devfull"}).Draw(t, "fault")
		calls := rapid.IntRange(1, 20).Draw(t, "calls")
		n++
		dir := filepath.Join(base, strconv.Itoa(n))
		_ = os.MkdirAll(dir, 0o755)
		defer os.RemoveAll(dir)
		log.Destroy()
		saved := log.Stdout
		defer func() { log.Stdout = saved; log.Destroy() }()
		ev := func(i int) *log.Event {
			e := log.GetEvent()
			e.Level, e.Time, e.Tag, e.Fields = log.ErrorLevel, time.Unix(int64(i), 0), "_c19_t", []log.Field{log.Int("id", i)}
			return e
		}
		var body func(i int)
		viaLogCall := false
		switch fault {
		case "file-closed":
			a := &log.FileAppender{AppenderBase: log.AppenderBase{Name: "f"}, Layout: text(), FileDir: dir, FileName: "x.log"}
			if err := a.Start(); err != nil {
				t.Fatalf("VERIF-INCONCLUSIVE C19: %v", err)
			}
			a.Stop()
			body = func(i int) { a.Write([]byte("raw\n")); a.Append(ev(i)) }
		case "file-never-opened":
			a := &log.FileAppender{AppenderBase: log.AppenderBase{Name: "f"}, Layout: text(), FileDir: filepath.Join(dir, "missing"), FileName: "x.log"}
			if err := a.Start(); err == nil {
				t.Fatalf("VERIF-INCONCLUSIVE C19: Start on a missing directory succeeded")
			}
			body = func(i int) { a.Write([]byte("raw\n")); a.Append(ev(i)); a.Stop() }
		case "file-devfull":
			a := &log.FileAppender{AppenderBase: log.AppenderBase{Name: "f"}, Layout: text(), FileDir: "/dev", FileName: "full"}
			if err := a.Start(); err != nil {
				t.Skip("/dev/full cannot be opened here")
			}
			defer a.Stop()
			body = func(i int) { a.Write([]byte("raw\n")); a.Append(ev(i)) }
		case "rolling-missing-dir":
			a := &log.RollingFileAppender{AppenderBase: log.AppenderBase{Name: "r"}, Layout: text(), FileDir: filepath.Join(dir, "missing"), FileName: "r.log", Rotation: log.TimeRotation{Interval: time.Second}, MaxAge: 1}
			_ = a.Start()
			body = func(i int) { a.Write([]byte("raw\n")); a.Append(ev(i)); a.Stop() }
		case "rolling-stopped":
			a := &log.RollingFileAppender{AppenderBase: log.AppenderBase{Name: "r"}, Layout: text(), FileDir: dir, FileName: "r.log", Rotation: log.TimeRotation{Interval: time.Second}, MaxAge: 1}
			if err := a.Start(); err != nil {
				t.Fatalf("VERIF-INCONCLUSIVE C19: %v", err)
			}
			a.Stop()
			_ = os.RemoveAll(dir)
			body = func(i int) { a.Write([]byte("raw\n")); a.Append(ev(i)) }
		case "console-error", "console-short", "console-both":
			log.Stdout = badWriter{mode: strings.TrimPrefix(fault, "console-")}
			viaLogCall = true
			body = func(i int) {
				log.Error(context.Background(), tagT, log.Int("id", i)) // built-in console logger
				(&log.ConsoleAppender{Layout: text()}).Append(ev(i))
			}
		case "refresh-file-missing-dir":
			viaLogCall = true
			var err error
			p := vk.Catch(func() {
				err = log.Refresh(map[string]string{"appender.f.type": "File", "appender.f.fileDir": filepath.Join(dir, "missing"), "appender.f.fileName": "x.log",
					"logger.l.type": "Logger", "logger.l.tags": "_c19_t", "logger.l.appenderRef.ref": "f"})
			})
			if p != nil {
				t.Fatalf("VERIF-VIOLATION C19: Refresh panicked when the file appender's directory is missing: %v", p)
			}
			if err == nil {
				t.Fatalf("VERIF-VIOLATION C19: Refresh reported success although the file appender could not open its file")
			}
			body = func(i int) { log.Error(context.Background(), tagT, log.Int("id", i)) }
		case "logger-file-closed-under-it", "logger-devfull":
			viaLogCall = true
			m := map[string]string{"appender.f.type": "File", "appender.f.fileDir": dir, "appender.f.fileName": "x.log", "logger.l.type": "Logger", "logger.l.tags": "_c19_t", "logger.l.appenderRef.ref": "f"}
			if fault == "logger-devfull" {
				m["appender.f.fileDir"], m["appender.f.fileName"] = "/dev", "full"
			}
			if err := log.Refresh(m); err != nil {
				t.Skip("cannot configure: " + err.Error())
			}
			if fault == "logger-file-closed-under-it" {
				// close every descriptor pointing into the directory behind the appender's back
				ents, _ := os.ReadDir("/proc/self/fd")
				for _, e := range ents {
					if l, err := os.Readlink("/proc/self/fd/" + e.Name()); err == nil && strings.HasPrefix(l, dir+"/") {
						fd, _ := strconv.Atoi(e.Name())
						_ = os.NewFile(uintptr(fd), "victim").Close()
					}
				}
			}
			body = func(i int) { log.Error(context.Background(), tagT, log.Int("id", i)) }
		}
		vk.Eval()
		vk.Class("static:" + fault)
		if viaLogCall {
			vk.NonTrivial(fmt.Sprintf("%s/%d", fault, calls))
		}
		vk.Sample(map[string]any{"static_fault": fault, "calls": calls})
		for i := 0; i < calls; i++ {
			done, p := vk.Within(10*time.Second, func() { body(i) })
			if !done {
				vk.HardFail("c19-hang", map[string]any{"fault": fault}, "C19: a call on a %s target did not return within 10 s", fault)
			}
			if p != nil {
				t.Fatalf("VERIF-VIOLATION C19: I/O failure surfaced as a panic (%s, call %d): %v", fault, i, p)
			}
		}
	})
}

// TestC19_BoundaryRace aims several goroutines at every boundary of a time-line whose outages
// cover most boundaries: the rotation decision is taken by several callers at once while file
// creation fails. Every call returns, nothing is lost, no file appears in mid-interval.
func TestC19_BoundaryRace(t *testing.T) {
	vk.Rule(rule)
	base := vk.Scratch("c19r")
	batch := 0
	rapid.Check(t, func(t *rapid.T) {
		tl := timeline{DurMS: rapid.SampledFrom([]int{5300, 4300, 3300}).Draw(t, "dur"), Writers: 1, PeriodMS: []int{rapid.SampledFrom([]int{150, 60, 333}).Draw(t, "period")}}
		tl.Bursters = rapid.SampledFrom([]int{12, 10, 8, 6, 3, 2}).Draw(t, "bursters")
		tl.ViaLogger = rapid.SampledFrom([]bool{false, false, true}).Draw(t, "viaLogger")
		// one or two outages, each long enough to cover at least one boundary
		from := rapid.IntRange(100, 900).Draw(t, "from")
		to := from + rapid.SampledFrom([]int{2600, 1100, 3700, 1900}).Draw(t, "len")
		to = min(to, tl.DurMS-150)
		tl.Outages = append(tl.Outages, window{from, to})
		if to+1400 < tl.DurMS-150 && rapid.Bool().Draw(t, "second") {
			tl.Outages = append(tl.Outages, window{to + 250, min(to+250+rapid.IntRange(900, 1500).Draw(t, "len2"), tl.DurMS-150)})
		}
		batch++
		log.Destroy()
		parent := filepath.Join(base, fmt.Sprintf("b%d", batch))
		_ = os.MkdirAll(parent, 0o755)
		o := runTimeline(tl, parent)
		log.Destroy()
		vk.Eval()
		vk.Class(fmt.Sprintf("race:bursters:%d", tl.Bursters))
		if o.boundaryInOutage && o.writesInOutage > 0 {
			vk.NonTrivial(tl.String())
		}
		vk.Sample(map[string]any{"timeline": tl.String(), "files": o.files, "writes_in_outage": o.writesInOutage})
		if o.err != nil {
			if strings.Contains(o.err.Error(), "VERIF-INCONCLUSIVE") {
				t.Fatalf("%v", o.err)
			}
			if strings.Contains(o.err.Error(), "VERIF-HANG") {
				vk.HardFail("c19-hang", map[string]any{"timeline": tl}, "C19: %v; time-line: %s", o.err, tl)
			}
			p := vk.SaveCase("c19", map[string]any{"timeline": tl, "error": o.err.Error(), "schedule_dependent": true})
			t.Fatalf("VERIF-VIOLATION C19: %v\ntime-line: %s (case %s)", o.err, tl, p)
		}
		_ = os.RemoveAll(parent)
	})
}

// TestC19_StalledRotation: the harness owns a stall inside a rotation. The name of the file for the
// next second S1 is taken by a named pipe, so the rotation at S1 hangs in open(2) until the harness
// opens the pipe's other end. Meanwhile the directory goes away and the boundary S2 passes: the
// rotation for S2 fails (or waits for the stalled one and then fails). Then the stalled rotation
// is released and the directory comes back, still inside S2. A rotation that finishes late must
// not bring its own, older interval back: no file may be created for S2 in mid-interval - creation
// is attempted again at the next boundary - and every call returns once the stall is over.
func TestC19_StalledRotation(t *testing.T) {
	vk.Rule(rule)
	base := vk.Scratch("c19s")
	batch := 0
	rapid.Check(t, func(t *rapid.T) {
		const K = 3
		type sc struct{ awayMS, releaseMS, restoreMS, periodMS int }
		scs := make([]sc, K)
		for i := range scs {
			scs[i].awayMS = rapid.IntRange(80, 600).Draw(t, fmt.Sprintf("away%d", i))        // after S1
			scs[i].releaseMS = rapid.IntRange(250, 450).Draw(t, fmt.Sprintf("release%d", i)) // after S2: every writer has written after S2 by then
			// the directory is back right after the release, before the writers' next write: what that
			// write finds decides (an attempt made while the directory is still away fails again and
			// hides a wrongly restored interval)
			scs[i].restoreMS = scs[i].releaseMS + rapid.IntRange(2, 12).Draw(t, fmt.Sprintf("restore%d", i)) // after S2
			scs[i].periodMS = rapid.SampledFrom([]int{90, 150, 60}).Draw(t, fmt.Sprintf("period%d", i))
		}
		batch++
		errs := make([]error, K)
		var wg sync.WaitGroup
		for i := range scs {
			wg.Add(1)
			go func() {
				defer wg.Done()
				parent := filepath.Join(base, fmt.Sprintf("b%d_%d", batch, i))
				_ = os.MkdirAll(parent, 0o755)
				errs[i] = stalledRotation(parent, scs[i].awayMS, scs[i].releaseMS, scs[i].restoreMS, scs[i].periodMS)
				if errs[i] == nil {
					_ = os.RemoveAll(parent)
				}
			}()
		}
		wg.Wait()
		for i, err := range errs {
			if err != nil && (strings.Contains(err.Error(), "the scenario ran late") || strings.Contains(err.Error(), "no write was issued between the boundary and the pause")) {
				// the machine stalled the harness's own goroutines: the scenario did not take place as
				// generated and is not judged (counted; a run without any judged scenario is inconclusive)
				stalledDiscarded++
				vk.Class("stalled-rotation:not-judged-harness-ran-late")
				continue
			}
			stalledJudged++
			vk.Eval()
			vk.Class("stalled-rotation")
			vk.NonTrivial(fmt.Sprintf("stalled-rotation/%+v", scs[i]))
			if err != nil {
				if strings.Contains(err.Error(), "VERIF-INCONCLUSIVE") {
					t.Fatalf("%v", err)
				}
				if strings.Contains(err.Error(), "VERIF-HANG") {
					vk.HardFail("c19-hang", map[string]any{"scenario": scs[i]}, "C19: %v; scenario %+v", err, scs[i])
				}
				p := vk.SaveCase("c19", map[string]any{"scenario": fmt.Sprintf("%+v", scs[i]), "error": err.Error(), "schedule_dependent": true})
				t.Fatalf("VERIF-VIOLATION C19: %v\nscenario: %+v (case %s)", err, scs[i], p)
			}
		}
	})
	if stalledJudged == 0 && !t.Failed() {
		t.Fatalf("VERIF-INCONCLUSIVE C19: none of the stalled-rotation scenarios took place as generated (%d ran late)", stalledDiscarded)
	}
	vk.Extra("stalled_rotation_scenarios_not_judged", stalledDiscarded)
}

var stalledJudged, stalledDiscarded int

func stalledRotation(parent string, awayMS, releaseMS, restoreMS, periodMS int) error {
	dir := filepath.Join(parent, "logs")
	away := filepath.Join(parent, "logs.away")
	_ = os.MkdirAll(dir, 0o755)
	now := time.Now()
	s1 := now.Truncate(time.Second).Add(time.Second)
	if s1.Sub(now) < 300*time.Millisecond {
		time.Sleep(s1.Sub(now) + 20*time.Millisecond)
		s1 = s1.Add(time.Second)
	}
	s2 := s1.Add(time.Second)
	fifo := "roll.log." + s1.Format("20060102150405")
	if err := syscall.Mkfifo(filepath.Join(dir, fifo), 0o644); err != nil {
		return fmt.Errorf("VERIF-INCONCLUSIVE: mkfifo: %v", err)
	}
	a := &log.RollingFileAppender{AppenderBase: log.AppenderBase{Name: "r"}, Layout: &log.TextLayout{BaseLayout: log.BaseLayout{FileLineLength: 48}},
		FileDir: dir, FileName: "roll.log", Rotation: log.TimeRotation{Interval: time.Second}, MaxAge: 100}
	if err := a.Start(); err != nil {
		return fmt.Errorf("VERIF-INCONCLUSIVE: %v", err)
	}
	var mu sync.Mutex
	var firstPanic any
	// paused: no new write is issued; inflight: calls that have not returned yet (the harness lets
	// the stalled ones finish before it brings the directory back, so that what the next write does
	// is not a matter of timing)
	var paused atomic.Bool
	var inflight, afterS2 atomic.Int32
	end := s2.Add(time.Duration(restoreMS+450) * time.Millisecond)
	var wg sync.WaitGroup
	for w := 0; w < 2; w++ {
		wg.Add(1)
		go func() {
			defer wg.Done()
			for n := 0; time.Now().Before(end); n++ {
				inflight.Add(1)
				if paused.Load() {
					inflight.Add(-1)
					time.Sleep(time.Millisecond)
					continue
				}
				if time.Now().After(s2) {
					afterS2.Add(1) // a call that begins after the boundary S2 (and before the pause): it meets the rotation decision for S2
				}
				p := vk.Catch(func() { a.Write([]byte(fmt.Sprintf("w%d:%d\n", w, n))) })
				inflight.Add(-1)
				if p != nil {
					mu.Lock()
					if firstPanic == nil {
						firstPanic = p
					}
					mu.Unlock()
					return
				}
				time.Sleep(time.Duration(periodMS) * time.Millisecond)
			}
		}()
	}
	time.Sleep(time.Until(s1.Add(time.Duration(awayMS) * time.Millisecond)))
	if err := os.Rename(dir, away); err != nil {
		return fmt.Errorf("VERIF-INCONCLUSIVE: rename: %v", err)
	}
	time.Sleep(time.Until(s2.Add(time.Duration(releaseMS-30) * time.Millisecond)))
	paused.Store(true)
	attempted := afterS2.Load() > 0
	time.Sleep(time.Until(s2.Add(time.Duration(releaseMS) * time.Millisecond)))
	// release the stalled rotation: open the pipe's reading end (and keep draining it)
	rd, err := os.OpenFile(filepath.Join(away, fifo), os.O_RDONLY|syscall.O_NONBLOCK, 0)
	if err != nil {
		return fmt.Errorf("VERIF-INCONCLUSIVE: opening the pipe: %v", err)
	}
	stopDrain := make(chan struct{})
	go func() {
		buf := make([]byte, 65536)
		for {
			select {
			case <-stopDrain:
				return
			default:
			}
			if n, _ := rd.Read(buf); n == 0 {
				time.Sleep(2 * time.Millisecond)
			}
		}
	}()
	// every call that was held by the stall returns now (the rotation of S2, if it had to wait for the
	// stalled one, still finds the directory away and fails)
	for deadline := time.Now().Add(15 * time.Second); inflight.Load() != 0; time.Sleep(time.Millisecond) {
		if time.Now().After(deadline) {
			close(stopDrain)
			return fmt.Errorf("VERIF-HANG a write call had not returned 15 s after the stalled rotation was released")
		}
	}
	time.Sleep(time.Until(s2.Add(time.Duration(restoreMS) * time.Millisecond)))
	if err := os.Rename(away, dir); err != nil {
		return fmt.Errorf("VERIF-INCONCLUSIVE: rename back: %v", err)
	}
	restoredAt := time.Now()
	paused.Store(false)
	done, _ := vk.Within(time.Until(end)+15*time.Second, wg.Wait)
	close(stopDrain)
	if !done {
		return fmt.Errorf("VERIF-HANG a write call had not returned 15 s after the stalled rotation was released and the directory was back")
	}
	_ = vk.Catch(a.Stop)
	_ = rd.Close()
	if firstPanic != nil {
		return fmt.Errorf("a write call panicked: %v", firstPanic)
	}
	if !restoredAt.Before(s2.Add(850 * time.Millisecond)) {
		return fmt.Errorf("VERIF-INCONCLUSIVE: the scenario ran late (directory back only at %s)", restoredAt.Format("15:04:05.000")) // the machine stalled the harness itself
	}
	name2 := "roll.log." + s2.Format("20060102150405")
	if !attempted {
		return fmt.Errorf("VERIF-INCONCLUSIVE: no write was issued between the boundary and the pause") // cannot happen with the generated periods unless the machine stalls the writers
	}
	if _, err := os.Stat(filepath.Join(dir, name2)); err == nil {
		return fmt.Errorf("the file %s was created in the middle of the interval %s: the rotation for that boundary failed while the directory was away (%s .. %s), and creation is due again at the next boundary - a rotation that had been stalled since %s and finished at %s brought its older interval back",
			name2, s2.Format("15:04:05"), s1.Add(time.Duration(awayMS)*time.Millisecond).Format("15:04:05.000"), s2.Add(time.Duration(restoreMS)*time.Millisecond).Format("15:04:05.000"), s1.Format("15:04:05"), s2.Add(time.Duration(releaseMS)*time.Millisecond).Format("15:04:05.000"))
	}
	return nil
}
