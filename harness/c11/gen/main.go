// Command gen writes a Go test file full of logging call sites of many shapes. Every site puts
// the expectation (runtime.Caller evaluated on the very same source line) next to the log call.
//
//	go run ./c11/gen -seed 7 -prefix g -out c11/sites_gen_test.go
package main

import (
	"flag"
	"fmt"
	"math/rand"
	"os"
	"strings"
)

var entries = []string{"Trace", "Tracef", "Debug", "Debugf", "Info", "Infof", "Warn", "Warnf", "Error", "Errorf", "Panic", "Panicf", "Fatal", "Fatalf", "Record"}

func call(entry string, id int, recv string) string {
	fn := "log." + entry
	if recv != "" {
		fn = recv
	}
	switch {
	case entry == "Trace" || entry == "Debug":
		return fmt.Sprintf(`%s(c.ctx, c.tag, func() []log.Field { return []log.Field{log.Int("id", %d)} })`, fn, id)
	case strings.HasSuffix(entry, "f"):
		if id%3 == 0 { // a plain message, no arguments to format
			return fmt.Sprintf(`%s(c.ctx, c.tag, "id=%d")`, fn, id)
		}
		return fmt.Sprintf(`%s(c.ctx, c.tag, "id=%%d", %d)`, fn, id)
	case entry == "Record":
		return fmt.Sprintf(`%s(c.ctx, log.InfoLevel, c.tag, 1, log.Int("id", %d))`, fn, id)
	default:
		return fmt.Sprintf(`%s(c.ctx, c.tag, log.Int("id", %d))`, fn, id)
	}
}

func main() {
	seed := flag.Int64("seed", 1, "seed")
	prefix := flag.String("prefix", "g", "identifier prefix")
	out := flag.String("out", "", "output file")
	n := flag.Int("n", 260, "number of sites")
	flag.Parse()
	r := rand.New(rand.NewSource(*seed))
	P := *prefix

	type decl struct{ text string }
	var decls []decl
	var reg []string
	pad := func() string { return strings.Repeat("\n", r.Intn(4)) }
	shapes := []string{"plain", "closure", "defer", "goroutine", "nested", "funcvalue", "method", "methodvalue", "generic", "inlinable", "noinline", "wrap2", "wrap2noinline", "wrap3", "wrap3mixed", "deferloop", "closurearg", "followedbyinline", "inlinablemid", "followedbystmt", "tinyhelper", "tinyhelper", "tinyhelper", "skipbeyond"}

	for i := 0; i < *n; i++ {
		id := i + 1
		entry := entries[i%len(entries)]
		shape := shapes[r.Intn(len(shapes))]
		if i < len(shapes)*2 {
			shape = shapes[i%len(shapes)] // every shape at least twice
		}
		if i >= len(entries) && i < len(entries)*2 {
			shape = "plain" // and every entry point once in the plain shape
		}
		name := fmt.Sprintf("%ssite%d", P, id)
		want := fmt.Sprintf("c.want(%d, here())", id)
		var b strings.Builder
		switch shape {
		case "plain":
			fmt.Fprintf(&b, "func %s(c *siteCtx) { %s; %s }\n", name, want, call(entry, id, ""))
		case "followedbyinline":
			// the statement after the log call is an inlined call on the NEXT line
			fmt.Fprintf(&b, "func %s(c *siteCtx) {\n\t%s; %s\n\tbump()\n}\n", name, want, call(entry, id, ""))
		case "followedbystmt":
			fmt.Fprintf(&b, "func %s(c *siteCtx) {\n\t%s; %s\n\tcounterG++\n\tc.n += len(c.exp)\n}\n", name, want, call(entry, id, ""))
		case "inlinablemid":
			// the log call sits in the middle of an inlinable helper
			fmt.Fprintf(&b, "func %sq%d(c *siteCtx) {\n\t%s; %s\n\tcounterG += 2\n}\n\nfunc %s(c *siteCtx) {\n\t%sq%d(c)\n\tbump()\n}\n", P, id, want, call(entry, id, ""), name, P, id)
		case "tinyhelper":
			// a helper cheap enough to be inlined for sure: the log call (no varargs, prebuilt field)
			// in the MIDDLE of its body; the expectation is the helper's entry line + 1, taken from
			// the function's entry pc (the helper cannot afford a want() call inside its inline budget)
			var c2 string
			switch {
			case entry == "Trace" || entry == "Debug":
				c2 = fmt.Sprintf("log.%s(c.ctx, c.tag, %sfn%d)", entry, P, id)
				fmt.Fprintf(&b, "var %sfn%d = func() []log.Field { return []log.Field{log.Int(\"id\", %d)} }\n\n", P, id, id)
			case strings.HasSuffix(entry, "f"):
				c2 = fmt.Sprintf("log.%s(c.ctx, c.tag, \"id=%d\")", entry, id)
			case entry == "Record":
				c2 = fmt.Sprintf("log.Record(c.ctx, log.InfoLevel, c.tag, 1, %sfld%d)", P, id)
				fmt.Fprintf(&b, "var %sfld%d = log.Int(\"id\", %d)\n\n", P, id, id)
			default:
				c2 = fmt.Sprintf("log.%s(c.ctx, c.tag, %sfld%d)", entry, P, id)
				fmt.Fprintf(&b, "var %sfld%d = log.Int(\"id\", %d)\n\n", P, id, id)
			}
			tailStmt := []string{"counterG += 2", "bump()", "counterG += 2"}[id%3]
			switch id % 4 {
			case 0: // helper call followed by more inlined code
				fmt.Fprintf(&b, "func %st%d(c *siteCtx) {\n\t%s\n\t%s\n}\n\nfunc %s(c *siteCtx) {\n\tc.wantFunc(%d, %st%d, 1)\n\t%st%d(c)\n\tbump()\n}\n", P, id, c2, tailStmt, name, id, P, id, P, id)
			case 1: // helper call is the last statement of the site
				fmt.Fprintf(&b, "func %st%d(c *siteCtx) {\n\t%s\n\t%s\n}\n\nfunc %s(c *siteCtx) {\n\tc.wantFunc(%d, %st%d, 1)\n\t%st%d(c)\n}\n", P, id, c2, tailStmt, name, id, P, id, P, id)
			case 2: // helper called in a loop
				fmt.Fprintf(&b, "func %st%d(c *siteCtx) {\n\t%s\n\t%s\n}\n\nfunc %s(c *siteCtx) {\n\tc.wantFunc(%d, %st%d, 1)\n\tc.wantFunc(%d, %st%d, 1)\n\tfor i := 0; i < 2; i++ {\n\t\t%st%d(c)\n\t}\n}\n", P, id, c2, tailStmt, name, id, P, id, id, P, id, P, id)
			default: // two levels of inlining
				fmt.Fprintf(&b, "func %st%d(c *siteCtx) {\n\t%s\n\t%s\n}\n\nfunc %su%d(c *siteCtx) {\n\t%st%d(c)\n}\n\nfunc %s(c *siteCtx) {\n\tc.wantFunc(%d, %st%d, 1)\n\t%su%d(c)\n}\n", P, id, c2, tailStmt, P, id, P, id, name, id, P, id, P, id)
			}
		case "skipbeyond":
			// Record with a skip that points beyond the goroutine's outermost frame: there is no such
			// frame, the location is empty - in both lookup modes, whatever was looked up before
			fmt.Fprintf(&b, "func %s(c *siteCtx) { c.wantEmpty(%d); log.Record(c.ctx, log.InfoLevel, c.tag, %d, log.Int(\"id\", %d)) }\n", name, id, 40+id%60, id)
		case "closure":
			fmt.Fprintf(&b, "func %s(c *siteCtx) {\n\tf := func() { %s; %s }\n\tf()\n}\n", name, want, call(entry, id, ""))
		case "closurearg":
			fmt.Fprintf(&b, "func %s(c *siteCtx) {\n\tapply(func() { %s; %s })\n}\n", name, want, call(entry, id, ""))
		case "defer":
			fmt.Fprintf(&b, "func %s(c *siteCtx) {\n\tdefer func() { %s; %s }()\n}\n", name, want, call(entry, id, ""))
		case "deferloop":
			fmt.Fprintf(&b, "func %s(c *siteCtx) {\n\tfor i := 0; i < 2; i++ {\n\t\tdefer func() { %s; %s }()\n\t}\n}\n", name, want, call(entry, id, ""))
		case "goroutine":
			fmt.Fprintf(&b, "func %s(c *siteCtx) {\n\td := make(chan struct{})\n\tgo func() { defer close(d); %s; %s }()\n\t<-d\n}\n", name, want, call(entry, id, ""))
		case "nested":
			fmt.Fprintf(&b, "func %s(c *siteCtx) {\n\tdefer func() {\n\t\td := make(chan struct{})\n\t\tgo func() {\n\t\t\tdefer close(d)\n\t\t\tf := func() { %s; %s }\n\t\t\tf()\n\t\t}()\n\t\t<-d\n\t}()\n}\n", name, want, call(entry, id, ""))
		case "funcvalue":
			fmt.Fprintf(&b, "func %s(c *siteCtx) {\n\tfv := log.%s\n\t%s; %s\n}\n", name, entry, want, call(entry, id, "fv"))
		case "method":
			fmt.Fprintf(&b, "type %sm%d struct{}\n\nfunc (%sm%d) do(c *siteCtx) { %s; %s }\n\nfunc %s(c *siteCtx) { %sm%d{}.do(c) }\n", P, id, P, id, want, call(entry, id, ""), name, P, id)
		case "methodvalue":
			fmt.Fprintf(&b, "type %sm%d struct{ k int }\n\nfunc (m *%sm%d) do(c *siteCtx) { %s; %s }\n\nfunc %s(c *siteCtx) {\n\tf := (&%sm%d{k: 1}).do\n\tf(c)\n\tf(c)\n}\n", P, id, P, id, want, call(entry, id, ""), name, P, id)
		case "generic":
			fmt.Fprintf(&b, "func %sg%d[T any](c *siteCtx, x T) { _ = x; %s; %s }\n\nfunc %s(c *siteCtx) {\n\t%sg%d(c, 1)\n\t%sg%d(c, \"s\")\n}\n", P, id, want, call(entry, id, ""), name, P, id, P, id)
		case "inlinable":
			fmt.Fprintf(&b, "func %sh%d(c *siteCtx) { %s; %s }\n\nfunc %s(c *siteCtx) { %sh%d(c) }\n", P, id, want, call(entry, id, ""), name, P, id)
		case "noinline":
			fmt.Fprintf(&b, "//go:noinline\nfunc %sh%d(c *siteCtx) { %s; %s }\n\nfunc %s(c *siteCtx) { %sh%d(c) }\n", P, id, want, call(entry, id, ""), name, P, id)
		case "wrap2", "wrap2noinline":
			ni := ""
			if shape == "wrap2noinline" {
				ni = "//go:noinline\n"
			}
			fmt.Fprintf(&b, "%sfunc %sw%d(c *siteCtx) { log.Record(c.ctx, log.WarnLevel, c.tag, 2, log.Int(\"id\", %d)) }\n\nfunc %s(c *siteCtx) { %s; %sw%d(c) }\n", ni, P, id, id, name, want, P, id)
		case "wrap3", "wrap3mixed":
			ni := ""
			if shape == "wrap3mixed" {
				ni = "//go:noinline\n"
			}
			fmt.Fprintf(&b, "func %sw%d(c *siteCtx) { log.Record(c.ctx, log.ErrorLevel, c.tag, 3, log.Int(\"id\", %d)) }\n\n%sfunc %sv%d(c *siteCtx) { %sw%d(c) }\n\nfunc %s(c *siteCtx) { %s; %sv%d(c) }\n", P, id, id, ni, P, id, P, id, name, want, P, id)
		}
		decls = append(decls, decl{pad() + b.String()})
		reg = append(reg, fmt.Sprintf("\t\t{ID: %d, Shape: %q, Entry: %q, Fn: %s},", id, shape, entry, name))
	}
	r.Shuffle(len(decls), func(i, j int) { decls[i], decls[j] = decls[j], decls[i] })

	var f strings.Builder
	fmt.Fprintf(&f, "// Code generated by c11/gen (seed %d, prefix %s). DO NOT EDIT.\n\npackage c11\n\nimport \"github.com/go-spring/log\"\n\nfunc init() {\n\tregisterSites(%q, %d, []site{\n%s\n\t})\n}\n\n", *seed, P, P, *seed, strings.Join(reg, "\n"))
	for _, d := range decls {
		f.WriteString(d.text)
		f.WriteString("\n")
	}
	if err := os.WriteFile(*out, []byte(f.String()), 0o644); err != nil {
		fmt.Fprintln(os.Stderr, err)
		os.Exit(1)
	}
}
