// C15 - configuration resolves as declared; bad configuration is an error, not a panic.
//
// Three generators over a grammar of the registered plugin types: (1) valid by construction, rendered
// with random key spelling / inline expressions / ${} indirection, refreshed in two independent
// renderings (metamorphic); (2) the same with exactly one injected fault of a known class; (3)
// randomly mutated configurations (totality). A Probe appender with one attribute of every
// injectable kind and one element of every shape reports the resolved values.
package c15

import (
	"context"
	"fmt"
	"math"
	"os"
	"path/filepath"
	"sort"
	"strconv"
	"strings"
	"testing"
	"time"

	"github.com/go-spring/log"
	"pgregory.net/rapid"

	"verifharness/vk"
)

const rule = "configuration trees over the registered plugin types (appenders Probe/Rec/Console/File/RollingFile/Discard, loggers Logger/AsyncLogger/Console/File/RollingFile/Discard, layouts, harness element types) with attributes configured or defaulted, rendered with camel/kebab/snake key spelling, flat keys or 'name!' inline expressions at any depth and ${key} indirection; generator 2 injects exactly one fault (ill-typed or out-of-range value, unknown plugin type, missing required attribute/element/type, dangling appender reference, ${} to an absent key, conflicting keys); generator 3 mutates keys/values/expressions; non-trivial = config using >=2 of {non-camel spelling, inline expression, ${}, default} or any fault/mutation case; distinct by rendered configuration"

// ---------------------------------------------------------------- abstract configuration tree

type field struct {
	Name string
	Val  string  // scalar
	Sub  *node   // single element
	List []*node // indexed elements
	Attr bool    // scalar attribute (eligible for ${} indirection)
}

type node struct {
	Type   string
	Fields []field
}

func (n *node) get(name string) *field {
	for i := range n.Fields {
		if n.Fields[i].Name == name {
			return &n.Fields[i]
		}
	}
	return nil
}

func (n *node) del(name string) {
	for i := range n.Fields {
		if n.Fields[i].Name == name {
			n.Fields = append(n.Fields[:i:i], n.Fields[i+1:]...)
			return
		}
	}
}

type config struct {
	Props     map[string]string
	Appenders map[string]*node
	Loggers   map[string]*node
	Dir       string
}

func clone(n *node) *node {
	if n == nil {
		return nil
	}
	c := &node{Type: n.Type}
	for _, f := range n.Fields {
		g := field{Name: f.Name, Val: f.Val, Attr: f.Attr, Sub: clone(f.Sub)}
		for _, l := range f.List {
			g.List = append(g.List, clone(l))
		}
		c.Fields = append(c.Fields, g)
	}
	return c
}

func (c config) clone() config {
	d := config{Props: map[string]string{}, Appenders: map[string]*node{}, Loggers: map[string]*node{}, Dir: c.Dir}
	for k, v := range c.Props {
		d.Props[k] = v
	}
	for k, v := range c.Appenders {
		d.Appenders[k] = clone(v)
	}
	for k, v := range c.Loggers {
		d.Loggers[k] = clone(v)
	}
	return d
}

// ---------------------------------------------------------------- generator 1: valid by construction

var strVal = rapid.OneOf(rapid.StringMatching(`[a-zA-Z0-9][a-zA-Z0-9_./:-]{0,12}`), rapid.SampledFrom([]string{"x", "hello world", "a=b", "{brace}", "comma,sep", "quo\"te", "back\\slash", "tab\there", "uni é", "1e5", "0x1F", "-7", "true", "Type{}", "$notref", "{${x}"}))

type probeExp map[string]string

var levelCodes = map[string]int{"NONE": 0, "TRACE": 100, "DEBUG": 200, "INFO": 300, "WARN": 400, "ERROR": 500, "PANIC": 600, "FATAL": 700, "MAX": 999}

func genInt(t *rapid.T, label string, lo, hi int64) string {
	v := rapid.Int64Range(lo, hi).Draw(t, label)
	if rapid.IntRange(0, 3).Draw(t, label+"edge") == 0 {
		v = rapid.SampledFrom([]int64{lo, hi, 0}).Draw(t, label+"e")
	}
	if v >= 0 && rapid.IntRange(0, 5).Draw(t, label+"hex") == 0 {
		return "0x" + strconv.FormatInt(v, 16)
	}
	return strconv.FormatInt(v, 10)
}

func genUint(t *rapid.T, label string, hi uint64) string {
	v := rapid.Uint64Range(0, hi).Draw(t, label)
	if rapid.IntRange(0, 3).Draw(t, label+"edge") == 0 {
		v = rapid.SampledFrom([]uint64{0, hi, 1}).Draw(t, label+"e")
	}
	return strconv.FormatUint(v, 10)
}

func parseIntModel(s string) string {
	v, err := strconv.ParseInt(s, 0, 64)
	if err != nil {
		panic("model: " + s)
	}
	return strconv.FormatInt(v, 10)
}

func genKid(t *rapid.T, label string, exp *string) *node {
	if rapid.Bool().Draw(t, label+"isB") {
		v := strVal.Draw(t, label+"v")
		n := &node{Type: "KidB", Fields: []field{{Name: "v", Val: v, Attr: true}}}
		w := "7"
		if rapid.Bool().Draw(t, label+"hasW") {
			w = genUint(t, label+"w", 65535)
			n.Fields = append(n.Fields, field{Name: "w", Val: w, Attr: true})
		}
		*exp = fmt.Sprintf("KidB(v=%s,w=%s)", v, w)
		return n
	}
	n := &node{Type: "KidA"}
	v, num := "ka", "1"
	if rapid.Bool().Draw(t, label+"hasV") {
		v = strVal.Draw(t, label+"v")
		n.Fields = append(n.Fields, field{Name: "v", Val: v, Attr: true})
	}
	if rapid.Bool().Draw(t, label+"hasN") {
		s := genInt(t, label+"n", -1000, 1000)
		num = parseIntModel(s)
		n.Fields = append(n.Fields, field{Name: "numVal", Val: s, Attr: true})
	}
	*exp = fmt.Sprintf("KidA(v=%s,numVal=%s)", v, num)
	return n
}

func genLayout(t *rapid.T, label string, exp *string) *node {
	typ := rapid.SampledFrom([]string{"TextLayout", "JSONLayout"}).Draw(t, label+"type")
	n := &node{Type: typ}
	w := "48"
	if rapid.Bool().Draw(t, label+"hasW") {
		w = strconv.Itoa(rapid.IntRange(3, 300).Draw(t, label+"w"))
		n.Fields = append(n.Fields, field{Name: "fileLineLength", Val: w, Attr: true})
	}
	*exp = fmt.Sprintf("%s(%s)", typ, w)
	return n
}

func genProbe(t *rapid.T, label string) (*node, probeExp) {
	n := &node{Type: "Probe"}
	exp := probeExp{"strDef": "dflt", "flagOn": "true", "i8": "-8", "i16": "16", "i32Val": "32", "i64": "-64", "plainInt": "5",
		"u8": "8", "u16": "16", "u32Val": "32", "u64": "64", "plainUint": "6",
		"f32": fmt.Sprintf("%08x", math.Float32bits(1.5)), "f64Val": fmt.Sprintf("%016x", math.Float64bits(2.25)),
		"lvl": "300~500", "rot": "1h0m0s", "fullPolicy": "1", "layout": "TextLayout(48)", "kidOpt": "<nil>", "kidDef": "KidA(v=ka,numVal=1);KidA(v=ka,numVal=1);"}
	add := func(name, val string) { n.Fields = append(n.Fields, field{Name: name, Val: val, Attr: true}) }
	// required string
	s := strVal.Draw(t, label+"str")
	add("str", s)
	exp["str"] = s
	opt := func(name string) bool { return rapid.Bool().Draw(t, label+"has_"+name) }
	if opt("strDef") {
		v := strVal.Draw(t, label+"strDef")
		add("strDef", v)
		exp["strDef"] = v
	} else if rapid.IntRange(0, 3).Draw(t, label+"stray") == 0 {
		// the attribute itself is not configured (default applies); only an unrelated deeper key exists under its name
		n.Fields = append(n.Fields, field{Name: "strDef", Sub: &node{Fields: []field{{Name: "strayKey", Val: "x"}}}})
	}
	if opt("flagOn") {
		v := rapid.SampledFrom([]string{"true", "false", "True", "FALSE", "1", "0", "t", "F"}).Draw(t, label+"flag")
		add("flagOn", v)
		exp["flagOn"] = fmt.Sprint(v == "true" || v == "True" || v == "1" || v == "t")
	}
	for _, d := range []struct {
		name   string
		lo, hi int64
	}{{"i8", -128, 127}, {"i16", -32768, 32767}, {"i32Val", math.MinInt32, math.MaxInt32}, {"i64", math.MinInt64, math.MaxInt64}, {"plainInt", math.MinInt64, math.MaxInt64}} {
		if opt(d.name) {
			v := genInt(t, label+d.name, d.lo, d.hi)
			add(d.name, v)
			exp[d.name] = parseIntModel(v)
		}
	}
	for _, d := range []struct {
		name string
		hi   uint64
	}{{"u8", 255}, {"u16", 65535}, {"u32Val", math.MaxUint32}, {"u64", math.MaxUint64}, {"plainUint", math.MaxUint64}} {
		if opt(d.name) {
			v := genUint(t, label+d.name, d.hi)
			add(d.name, v)
			exp[d.name] = v
		}
	}
	if opt("f32") {
		v := rapid.SampledFrom([]string{"0", "-1.5", "3.25", "1e10", "0.1", "3.4e38", "-0", "1e-40"}).Draw(t, label+"f32")
		add("f32", v)
		f, _ := strconv.ParseFloat(v, 32)
		exp["f32"] = fmt.Sprintf("%08x", math.Float32bits(float32(f)))
	}
	if opt("f64Val") {
		v := rapid.SampledFrom([]string{"0", "-1.5", "0.1", "1e300", "1.7976931348623157e308", "5e-324", "123456789.125"}).Draw(t, label+"f64")
		add("f64Val", v)
		f, _ := strconv.ParseFloat(v, 64)
		exp["f64Val"] = fmt.Sprintf("%016x", math.Float64bits(f))
	}
	if opt("lvl") {
		names := []string{"NONE", "TRACE", "DEBUG", "INFO", "WARN", "ERROR", "PANIC", "FATAL", "MAX"}
		a := rapid.SampledFrom(names).Draw(t, label+"lvlMin")
		v, e := a, fmt.Sprintf("%d~999", levelCodes[a])
		if rapid.Bool().Draw(t, label+"lvlHasMax") {
			b := rapid.SampledFrom(names).Draw(t, label+"lvlMax")
			v, e = a+"~"+b, fmt.Sprintf("%d~%d", levelCodes[a], levelCodes[b])
		}
		if rapid.Bool().Draw(t, label+"lvlLower") {
			v = strings.ToLower(v)
		}
		add("lvl", v)
		exp["lvl"] = e
	}
	if opt("rot") {
		v := rapid.SampledFrom([]string{"h", "30m", "10m"}).Draw(t, label+"rot")
		add("rot", v)
		exp["rot"] = map[string]string{"h": "1h0m0s", "30m": "30m0s", "10m": "10m0s"}[v]
	}
	if opt("fullPolicy") {
		v := rapid.SampledFrom([]string{"Block", "Discard", "DiscardOldest"}).Draw(t, label+"pol")
		add("fullPolicy", v)
		exp["fullPolicy"] = map[string]string{"Block": "0", "Discard": "1", "DiscardOldest": "2"}[v]
	}
	if opt("layout") {
		var e string
		n.Fields = append(n.Fields, field{Name: "layout", Sub: genLayout(t, label+"lay", &e)})
		exp["layout"] = e
	}
	var e string
	n.Fields = append(n.Fields, field{Name: "kid", Sub: genKid(t, label+"kid", &e)})
	exp["kid"] = e
	if opt("kidOpt") {
		n.Fields = append(n.Fields, field{Name: "kidOpt", Sub: genKid(t, label+"kidOpt", &e)})
		exp["kidOpt"] = e
	}
	nl := rapid.SampledFrom([]int{1, 2, 3, 2, 11, 12, 10, 23}).Draw(t, label+"nlist") // also lists whose indices have two digits
	var list []*node
	exp["kidList"] = ""
	for i := 0; i < nl; i++ {
		list = append(list, genKid(t, fmt.Sprintf("%skl%d", label, i), &e))
		exp["kidList"] += e + ";"
	}
	n.Fields = append(n.Fields, field{Name: "kidList", List: list})
	if opt("kidDef") {
		nd := rapid.IntRange(1, 2).Draw(t, label+"ndef")
		var dl []*node
		exp["kidDef"] = ""
		for i := 0; i < nd; i++ {
			dl = append(dl, genKid(t, fmt.Sprintf("%skd%d", label, i), &e))
			exp["kidDef"] += e + ";"
		}
		n.Fields = append(n.Fields, field{Name: "kidDef", List: dl})
	}
	return n, exp
}

type expectation struct {
	Probes  map[string]probeExp
	Routes  map[string][]string // tag -> appender names (Probe/Rec) that must receive the event
	Files   map[string]string   // tag -> file name prefix that must be non-empty
	Console map[string]bool     // tag -> line expected on the console stream
	Types   []string            // plugin types instantiated
	Caller  bool                // the enableCaller property of this configuration
}

// rotation policies registered by the application, under names of its choosing
func init() {
	log.RegisterTimeRotation("Daily", log.TimeRotation{Interval: 24 * time.Hour})
	log.RegisterTimeRotation("2H", log.TimeRotation{Interval: 2 * time.Hour})
	log.RegisterTimeRotation("quarter", log.TimeRotation{Interval: 15 * time.Minute})
}

var tagNames = []string{"_c15_a", "_c15_b", "_c15_c"}
var tags = func() map[string]*log.Tag {
	m := map[string]*log.Tag{}
	for _, n := range tagNames {
		m[n] = log.RegisterTag(n)
	}
	return m
}()

func attr(name, val string) field { return field{Name: name, Val: val, Attr: true} }

func genConfig(t *rapid.T, dir string) (config, expectation) {
	caller := rapid.Bool().Draw(t, "enableCaller")
	c := config{Props: map[string]string{"enableCaller": fmt.Sprint(caller), "fastCaller": rapid.SampledFrom([]string{"false", "true"}).Draw(t, "fastCaller"), "bufferCap": rapid.SampledFrom([]string{"10KB", "1KB", "4 kb"}).Draw(t, "bufferCap")},
		Appenders: map[string]*node{}, Loggers: map[string]*node{}, Dir: dir}
	exp := expectation{Probes: map[string]probeExp{}, Routes: map[string][]string{}, Files: map[string]string{}, Console: map[string]bool{}, Caller: caller}
	np := rapid.IntRange(1, 2).Draw(t, "nprobes")
	var sinks []string
	for i := 0; i < np; i++ {
		name := fmt.Sprintf("p%d", i+1)
		n, e := genProbe(t, name)
		c.Appenders[name] = n
		exp.Probes[name] = e
		sinks = append(sinks, name)
		exp.Types = append(exp.Types, "appender:Probe")
	}
	others := rapid.SliceOfNDistinct(rapid.SampledFrom([]string{"rec", "con", "fil", "rol", "dis"}), 0, 5, rapid.ID[string]).Draw(t, "otherAppenders")
	for _, o := range others {
		var e string
		switch o {
		case "rec":
			// an appender's name may contain letters outside ASCII (it is a key segment and a
			// reference value at once: both must stay what was written)
			rn := rapid.SampledFrom([]string{"rec", "rec", "donnéesrec", "日志rec", "überwachung"}).Draw(t, "recName")
			c.Appenders[rn] = &node{Type: "Rec"}
			sinks = append(sinks, rn)
			exp.Types = append(exp.Types, "appender:Rec")
		case "con":
			n := &node{Type: "Console"}
			if rapid.Bool().Draw(t, "conLayout") {
				n.Fields = append(n.Fields, field{Name: "layout", Sub: genLayout(t, "conLay", &e)})
			}
			c.Appenders["con"] = n
			exp.Types = append(exp.Types, "appender:Console")
		case "fil":
			n := &node{Type: "File", Fields: []field{attr("fileDir", dir), attr("fileName", "fil.log")}}
			if rapid.Bool().Draw(t, "filLayout") {
				n.Fields = append(n.Fields, field{Name: "layout", Sub: genLayout(t, "filLay", &e)})
			}
			c.Appenders["fil"] = n
			exp.Types = append(exp.Types, "appender:File")
		case "rol":
			c.Appenders["rol"] = &node{Type: "RollingFile", Fields: []field{attr("fileDir", dir), attr("fileName", "rol.log"), attr("rotation", rapid.SampledFrom([]string{"h", "30m", "10m", "Daily", "2H", "quarter"}).Draw(t, "rolRot")), attr("maxAge", strconv.Itoa(rapid.IntRange(1, 720).Draw(t, "rolAge")))}}
			exp.Types = append(exp.Types, "appender:RollingFile")
		case "dis":
			c.Appenders["dis"] = &node{Type: "Discard"}
			exp.Types = append(exp.Types, "appender:Discard")
		}
	}
	nl := rapid.IntRange(1, 3).Draw(t, "nloggers")
	if rapid.IntRange(0, 9).Draw(t, "noLoggers") == 0 {
		nl = 0 // appenders only: a valid configuration, the built-in root logger keeps serving every tag
	}
	for i := 0; i < nl; i++ {
		// names on both sides of "root" in sorting order
		name := []string{"lg1", "zz2", "svc3"}[i]
		tag := tagNames[i]
		typ := rapid.SampledFrom([]string{"Logger", "AsyncLogger", "Logger", "Console", "File", "RollingFile", "Discard"}).Draw(t, name+"type")
		n := &node{Type: typ, Fields: []field{attr("tags", tag)}}
		exp.Types = append(exp.Types, "logger:"+typ)
		switch typ {
		case "Logger", "AsyncLogger":
			nr := rapid.IntRange(1, min(2, len(sinks))).Draw(t, name+"nrefs")
			refs := rapid.SliceOfNDistinct(rapid.SampledFrom(sinks), nr, nr, rapid.ID[string]).Draw(t, name+"refs")
			var list []*node
			for _, r := range refs {
				list = append(list, &node{Fields: []field{attr("ref", r)}})
				exp.Routes[tag] = append(exp.Routes[tag], r)
			}
			n.Fields = append(n.Fields, field{Name: "appenderRef", List: list})
			if typ == "AsyncLogger" {
				// every policy, and none at all (the declared default): one event per tag never fills a buffer
				if pol := rapid.SampledFrom([]string{"Block", "", "Discard", "DiscardOldest"}).Draw(t, name+"policy"); pol != "" {
					n.Fields = append(n.Fields, attr("bufferFullPolicy", pol))
				}
				if rapid.Bool().Draw(t, name+"hasBuf") {
					n.Fields = append(n.Fields, attr("bufferSize", strconv.Itoa(rapid.IntRange(100, 5000).Draw(t, name+"buf"))))
				}
			}
			if rapid.Bool().Draw(t, name+"hasLevel") {
				n.Fields = append(n.Fields, attr("level", rapid.SampledFrom([]string{"", "TRACE", "debug", "NONE~MAX", "INFO"}).Draw(t, name+"level")))
			}
		case "Console":
			exp.Console[tag] = true
		case "File":
			n.Fields = append(n.Fields, attr("fileDir", dir), attr("fileName", name+".log"))
			exp.Files[tag] = name + ".log"
		case "RollingFile":
			n.Fields = append(n.Fields, attr("fileDir", dir), attr("fileName", name+".roll"), attr("rotation", rapid.SampledFrom([]string{"h", "h", "Daily", "2H", "quarter"}).Draw(t, name+"rot")))
			if rapid.Bool().Draw(t, name+"async") {
				n.Fields = append(n.Fields, attr("async", "true"))
				if pol := rapid.SampledFrom([]string{"Block", "", "Discard", "DiscardOldest"}).Draw(t, name+"policy"); pol != "" {
					n.Fields = append(n.Fields, attr("bufferFullPolicy", pol))
				}
				if rapid.Bool().Draw(t, name+"hasBuf") {
					n.Fields = append(n.Fields, attr("bufferSize", strconv.Itoa(rapid.IntRange(100, 5000).Draw(t, name+"buf"))))
				}
			}
			if rapid.Bool().Draw(t, name+"sep") {
				n.Fields = append(n.Fields, attr("separate", rapid.SampledFrom([]string{"true", "false"}).Draw(t, name+"sepv")))
			}
			if rapid.Bool().Draw(t, name+"age") {
				n.Fields = append(n.Fields, attr("maxAge", strconv.Itoa(rapid.IntRange(1, 1000).Draw(t, name+"agev"))))
			}
			exp.Files[tag] = name + ".roll."
		}
		c.Loggers[name] = n
	}
	if rapid.Bool().Draw(t, "root") {
		c.Loggers["root"] = &node{Type: "Logger", Fields: []field{{Name: "appenderRef", List: []*node{{Fields: []field{attr("ref", sinks[0])}}}}}}
	}
	return c, exp
}

// ---------------------------------------------------------------- rendering

type renderer struct {
	t       *rapid.T
	label   string
	m       map[string]string
	nprop   int
	used    map[string]bool // feature usage for the non-triviality rule
	noExtra bool
}

func (r *renderer) spell(name string) string {
	// split camelCase words
	var words []string
	cur := ""
	for _, ch := range name {
		if ch >= 'A' && ch <= 'Z' && cur != "" {
			words = append(words, cur)
			cur = string(ch + 32)
		} else {
			cur += string(ch)
		}
	}
	words = append(words, cur)
	if len(words) == 1 {
		return name
	}
	switch rapid.IntRange(0, 2).Draw(r.t, r.label+"spell") {
	case 1:
		r.used["spelling"] = true
		return strings.Join(words, "-")
	case 2:
		r.used["spelling"] = true
		return strings.Join(words, "_")
	}
	return name
}

func (r *renderer) spellInline(name string) string {
	s := r.spell(name)
	return strings.ReplaceAll(s, "-", "_")
}

func (r *renderer) value(f field) string {
	if f.Attr && !r.noExtra && rapid.IntRange(0, 5).Draw(r.t, r.label+"indirect") == 0 {
		r.nprop++
		r.used["indirection"] = true
		base := fmt.Sprintf("refProp%d", r.nprop)
		r.m[r.spell(base)] = f.Val
		// a placeholder may be padded with blanks (a properties line with a trailing blank): the value is
		// trimmed before it is looked at
		pad := rapid.SampledFrom([]string{"", "", "", " ", "\t", "  "})
		return pad.Draw(r.t, r.label+"padL") + "${" + r.spell(base) + "}" + pad.Draw(r.t, r.label+"padR")
	}
	return f.Val
}

func quoteExpr(v string) string {
	var b strings.Builder
	b.WriteByte('"')
	for i := 0; i < len(v); i++ {
		switch c := v[i]; c {
		case '"', '\\':
			b.WriteByte('\\')
			b.WriteByte(c)
		case '\t':
			b.WriteString(`\t`)
		case '\n':
			b.WriteString(`\n`)
		default:
			b.WriteByte(c)
		}
	}
	b.WriteByte('"')
	return b.String()
}

var bareRe = func(s string) bool {
	if s == "" {
		return false
	}
	for i := 0; i < len(s); i++ {
		c := s[i]
		if !(c >= 'a' && c <= 'z' || c >= 'A' && c <= 'Z' || c == '_' || i > 0 && c >= '0' && c <= '9') {
			return false
		}
	}
	return true
}

func (r *renderer) expr(n *node) string {
	var parts []string
	for _, f := range n.Fields {
		key := r.spellInline(f.Name)
		switch {
		case f.Sub != nil:
			parts = append(parts, key+" = "+r.expr(f.Sub))
		case f.List != nil:
			for i, l := range f.List {
				parts = append(parts, fmt.Sprintf("%s[%d] = %s", key, i, r.expr(l)))
			}
		default:
			v := r.value(f)
			if bareRe(v) && rapid.Bool().Draw(r.t, r.label+"bare") {
				parts = append(parts, key+" = "+v)
			} else {
				parts = append(parts, key+" = "+quoteExpr(v))
			}
		}
	}
	typ := n.Type
	if typ == "" {
		typ = "AppenderRef" // list elements without an explicit type: the type name inside an expression is mandatory
	}
	sep := rapid.SampledFrom([]string{", ", ",", " ,\n "}).Draw(r.t, r.label+"sep")
	trail := rapid.SampledFrom([]string{"", ","}).Draw(r.t, r.label+"trail")
	if len(parts) == 0 {
		trail = ""
	}
	return typ + " {" + strings.Join(parts, sep) + trail + "}"
}

func (r *renderer) node(path string, n *node) {
	if !r.noExtra && rapid.IntRange(0, 3).Draw(r.t, r.label+"inline") == 0 {
		r.used["inline"] = true
		r.m[path+"!"] = r.expr(n)
		return
	}
	if n.Type != "" {
		r.m[path+".type"] = n.Type
	}
	for _, f := range n.Fields {
		key := path + "." + r.spell(f.Name)
		switch {
		case f.Sub != nil:
			r.node(key, f.Sub)
		case f.List != nil:
			if len(f.List) == 1 && rapid.Bool().Draw(r.t, r.label+"single") {
				r.node(key, f.List[0])
			} else {
				for i, l := range f.List {
					r.node(fmt.Sprintf("%s[%d]", key, i), l)
				}
			}
		default:
			r.m[key] = r.value(f)
		}
	}
}

func render(t *rapid.T, c config, label string, plain bool) (map[string]string, map[string]bool) {
	r := &renderer{t: t, label: label, m: map[string]string{}, used: map[string]bool{}, noExtra: plain}
	for k, v := range c.Props {
		r.m[r.spell(k)] = v
	}
	for _, name := range sortedKeys(c.Appenders) {
		r.node("appender."+name, c.Appenders[name])
	}
	for _, name := range sortedKeys(c.Loggers) {
		r.node("logger."+name, c.Loggers[name])
	}
	return r.m, r.used
}

func sortedKeys(m map[string]*node) []string {
	var ks []string
	for k := range m {
		ks = append(ks, k)
	}
	sort.Strings(ks)
	return ks
}

func mapDesc(m map[string]string) string {
	var ks []string
	for k := range m {
		ks = append(ks, k)
	}
	sort.Strings(ks)
	var b strings.Builder
	for _, k := range ks {
		fmt.Fprintf(&b, "  %s = %q\n", k, m[k])
	}
	return b.String()
}

// ---------------------------------------------------------------- running a configuration

var console = &vk.Capture{}

type observed struct {
	Probes   map[string]map[string]string
	CallerOn map[string][]bool  // appender name -> per received event: did it carry a file name
	Received map[string][]int64 // appender name -> ids
	Files    map[string]bool
	Console  string
}

func closeLeaked(dir string) {
	ents, _ := os.ReadDir("/proc/self/fd")
	for _, e := range ents {
		if l, err := os.Readlink("/proc/self/fd/" + e.Name()); err == nil && strings.HasPrefix(l, dir+"/") {
			fd, _ := strconv.Atoi(e.Name())
			_ = os.NewFile(uintptr(fd), "leak").Close()
		}
	}
}

// refresh runs Refresh under the no-panic / returns watchdog.
func refresh(m map[string]string) (err error, panicked any, hung bool) {
	done, p := vk.Within(20*time.Second, func() { err = log.Refresh(m) })
	return err, p, !done
}

func observe(c config, exp expectation) (observed, error) {
	o := observed{Probes: map[string]map[string]string{}, Received: map[string][]int64{}, Files: map[string]bool{}, CallerOn: map[string][]bool{}}
	done, p := vk.Within(20*time.Second, func() {
		for i, tn := range tagNames {
			log.Error(context.Background(), tags[tn], log.Int("id", int64(i+1)))
		}
		log.Destroy()
	})
	if p != nil {
		return o, fmt.Errorf("logging through the configured system panicked: %v", p)
	}
	if !done {
		return o, fmt.Errorf("VERIF-HANG logging + Destroy did not return")
	}
	probeMu.Lock()
	for k, v := range probes {
		o.Probes[k] = v
	}
	for name, p := range probeEv {
		p.mu.Lock()
		o.Received[name] = append([]int64{}, p.events...)
		for _, f := range p.files {
			o.CallerOn[name] = append(o.CallerOn[name], f != "")
		}
		p.mu.Unlock()
	}
	probeMu.Unlock()
	for rn, r := range vk.AllRecs() { // the recording appender, under whatever name it was configured
		for _, it := range r.Items() {
			o.Received[rn] = append(o.Received[rn], it.ID)
			o.CallerOn[rn] = append(o.CallerOn[rn], it.File != "")
		}
	}
	for _, ids := range o.Received {
		// several (possibly asynchronous) loggers may share an appender: arrival order is not part of the property
		sort.Slice(ids, func(i, j int) bool { return ids[i] < ids[j] })
	}
	ents, _ := os.ReadDir(c.Dir)
	for _, e := range ents {
		if st, err := e.Info(); err == nil && st.Size() > 0 {
			o.Files[e.Name()] = true
		}
	}
	o.Console = console.String()
	return o, nil
}

func checkExpectation(o observed, exp expectation) error {
	for name, want := range exp.Probes {
		got, ok := o.Probes[name]
		if !ok {
			return fmt.Errorf("probe appender %s was not instantiated/started", name)
		}
		var ks []string
		for k := range want {
			ks = append(ks, k)
		}
		sort.Strings(ks)
		for _, k := range ks {
			if got[k] != want[k] {
				return fmt.Errorf("probe %s attribute/element %q resolved to %q, declared (configured value, else default) %q", name, k, got[k], want[k])
			}
		}
	}
	for a, flags := range o.CallerOn {
		for _, on := range flags {
			if on != exp.Caller {
				return fmt.Errorf("the configuration sets the enableCaller property to %v, but an event at appender %s carried a source location: %v (the top-level property was not applied as configured)", exp.Caller, a, on)
			}
		}
	}
	for i, tn := range tagNames {
		id := int64(i + 1)
		for _, a := range exp.Routes[tn] {
			n := 0
			for _, got := range o.Received[a] {
				if got == id {
					n++
				}
			}
			if n != 1 {
				return fmt.Errorf("the event logged through %s reached appender %s %d times, the configuration references it once", tn, a, n)
			}
		}
		if prefix, ok := exp.Files[tn]; ok {
			found := false
			for f := range o.Files {
				if strings.HasPrefix(f, prefix) {
					found = true
				}
			}
			if !found {
				return fmt.Errorf("the logger serving %s writes to %s* in the configured directory, but no such non-empty file exists", tn, prefix)
			}
		}
		if exp.Console[tn] && !strings.Contains(o.Console, "id="+strconv.Itoa(i+1)) && !strings.Contains(o.Console, `"id":`+strconv.Itoa(i+1)) {
			return fmt.Errorf("the Console logger serving %s produced no line on the console stream", tn)
		}
	}
	return nil
}

func prepare(dir string) {
	log.Destroy()
	vk.ResetRecs()
	resetProbes()
	console.Reset()
	log.Stdout = console
	_ = os.RemoveAll(dir)
	_ = os.MkdirAll(dir, 0o755)
}

var instantiated = map[string]int{}

func TestC15_Valid(t *testing.T) {
	vk.Rule(rule)
	base := vk.Scratch("c15v")
	n := 0
	rapid.Check(t, func(t *rapid.T) {
		n++
		dir := filepath.Join(base, strconv.Itoa(n))
		defer os.RemoveAll(dir)
		c, exp := genConfig(t, dir)
		var first observed
		firstDesc := ""
		features := map[string]bool{}
		for round, label := range []string{"A", "B", "plain"} {
			prepare(dir)
			m, used := render(t, c, label, label == "plain")
			for k := range used {
				features[k] = true
			}
			err, p, hung := refresh(m)
			if hung {
				vk.HardFail("c15-hang", map[string]any{"config": m}, "C15: Refresh did not return within 20 s")
			}
			if p != nil {
				t.Fatalf("VERIF-VIOLATION C15: Refresh panicked on a valid configuration: %v\nrendering %s:\n%s", p, label, mapDesc(m))
			}
			if err != nil {
				log.Destroy()
				closeLeaked(dir)
				t.Fatalf("VERIF-VIOLATION C15: Refresh rejected a valid configuration: %s\nrendering %s:\n%s", firstLine(err), label, mapDesc(m))
			}
			o, oerr := observe(c, exp)
			if oerr != nil {
				if strings.Contains(oerr.Error(), "VERIF-HANG") {
					vk.HardFail("c15-hang", map[string]any{"config": m}, "C15: %v", oerr)
				}
				t.Fatalf("VERIF-VIOLATION C15: %v\nrendering %s:\n%s", oerr, label, mapDesc(m))
			}
			if err := checkExpectation(o, exp); err != nil {
				t.Fatalf("VERIF-VIOLATION C15: %v\nrendering %s:\n%s", err, label, mapDesc(m))
			}
			if round == 0 {
				firstDesc = mapDesc(m)
				first = o
			} else if fmt.Sprint(first.Probes) != fmt.Sprint(o.Probes) || fmt.Sprint(first.Received) != fmt.Sprint(o.Received) {
				t.Fatalf("VERIF-VIOLATION C15: two spellings/renderings of the same configuration behave differently\nrendering %s:\n%s", label, mapDesc(m))
			}
			if round == 0 && len(m) < 40 {
				vk.Sample(map[string]any{"valid_config": m})
			}
		}
		vk.Eval()
		vk.Class("valid")
		defaults := false
		for _, e := range exp.Probes {
			if e["strDef"] == "dflt" || e["layout"] == "TextLayout(48)" {
				defaults = true
			}
		}
		if defaults {
			features["default"] = true
		}
		for f := range features {
			vk.Class("feature:" + f)
		}
		if len(features) >= 2 {
			vk.NonTrivial(firstDesc)
		}
		for _, ty := range exp.Types {
			instantiated[ty]++
		}
	})
	log.Destroy()
	for ty, k := range instantiated {
		vk.ClassN("instantiated:"+ty, int64(k))
	}
	for _, ty := range []string{"appender:Probe", "appender:Rec", "appender:Console", "appender:File", "appender:RollingFile", "appender:Discard",
		"logger:Logger", "logger:AsyncLogger", "logger:Console", "logger:File", "logger:RollingFile", "logger:Discard"} {
		if instantiated[ty] == 0 {
			t.Fatalf("VERIF-INCONCLUSIVE C15: generator never instantiated %s in this run", ty)
		}
	}
}

func firstLine(err error) string {
	if err == nil {
		return "<nil>"
	}
	s := err.Error()
	if i := strings.IndexByte(s, '\n'); i >= 0 {
		s = s[:i]
	}
	if len(s) > 400 {
		s = s[:400]
	}
	return s
}

// ---------------------------------------------------------------- generator 2: exactly one injected fault

func injectFault(t *rapid.T, c config, m map[string]string) (string, bool) {
	probe := c.Appenders["p1"]
	kind := rapid.SampledFrom([]string{"ill-typed", "out-of-range", "unknown-type", "missing-required", "dangling-ref", "absent-property", "conflicting-keys", "missing-type", "bad-property"}).Draw(t, "fault")
	switch kind {
	case "ill-typed":
		a := rapid.SampledFrom([]string{"flagOn", "i8", "i64", "plainInt", "u16", "u64", "f32", "f64Val", "lvl", "rot", "fullPolicy"}).Draw(t, "attr")
		v := map[string]string{"flagOn": "maybe", "i8": "seven", "i64": "1.5", "plainInt": "12abc", "u16": "-1", "u64": "ten", "f32": "1.2.3", "f64Val": "fast", "lvl": "LOUD", "rot": "7m", "fullPolicy": "Drop"}[a]
		if a == "lvl" {
			// a level range is 'MIN' or 'MIN~MAX' over known names: a missing or unknown side is not a range
			v = rapid.SampledFrom([]string{"LOUD", "INFO~", "~ERROR", "~", "INFO~LOUD", "LOUD~ERROR", "INFO-ERROR", "INFO..ERROR", "info~ ", "300"}).Draw(t, "badLvl")
		}
		probe.del(a)
		probe.Fields = append(probe.Fields, attr(a, v))
		return kind + ":" + a + "=" + v, true
	case "out-of-range":
		a := rapid.SampledFrom([]string{"i8", "i8", "i16", "i32Val", "u8", "u16", "u32Val", "i64", "u64", "f32"}).Draw(t, "attr")
		v := map[string]string{"i8": rapid.SampledFrom([]string{"128", "-129", "300", "1000000"}).Draw(t, "i8v"), "i16": "32768", "i32Val": "2147483648", "u8": "256", "u16": "65536", "u32Val": "4294967296",
			"i64": "9223372036854775808", "u64": "18446744073709551616", "f32": "1e39"}[a]
		probe.del(a)
		probe.Fields = append(probe.Fields, attr(a, v))
		return kind + ":" + a + "=" + v, true
	case "bad-property":
		k := rapid.SampledFrom([]string{"bufferCap", "enableCaller", "fastCaller"}).Draw(t, "badProp")
		c.Props[k] = map[string]string{"bufferCap": rapid.SampledFrom([]string{"1GB", "ten", "10", "-1KB"}).Draw(t, "badCap"), "enableCaller": "maybe", "fastCaller": "2"}[k]
		return kind + ":" + k + "=" + c.Props[k], true
	case "unknown-type":
		if rapid.IntRange(0, 4).Draw(t, "refType") == 0 {
			// an appender reference with an explicit unknown type
			c.Loggers["lgy"] = &node{Type: "Logger", Fields: []field{attr("tags", "_c15_y"), {Name: "appenderRef", List: []*node{{Type: "Bogus", Fields: []field{attr("ref", "p1")}}}}}}
			return kind + ":appenderRef", true
		}
		switch rapid.IntRange(0, 3).Draw(t, "where") {
		case 0:
			probe.Type = "Nope"
		case 1:
			probe.del("layout")
			probe.Fields = append(probe.Fields, field{Name: "layout", Sub: &node{Type: "XmlLayout"}})
		case 2:
			probe.get("kid").Sub.Type = "KidZ"
		default:
			c.Loggers["lg1"].Type = "TurboLogger"
		}
		return kind, true
	case "missing-required":
		switch rapid.IntRange(0, 3).Draw(t, "which") {
		case 0:
			probe.del("str")
		case 1:
			probe.del("kid")
		case 2:
			probe.del("kidList")
		default:
			c.Appenders["zfile"] = &node{Type: "File", Fields: []field{attr("fileDir", c.Dir)}} // fileName is required
		}
		return kind, true
	case "dangling-ref":
		// a name no appender has: an unrelated one, or one that merely resembles the appender p1 (a
		// reference is a value, not a key: it is compared as written)
		ghost := rapid.SampledFrom([]string{"ghost", "P1", "p1_", "p_1", "p-1", "p1-", "p1 x", "appender.p1"}).Draw(t, "ghost")
		c.Loggers["lgx"] = &node{Type: "Logger", Fields: []field{attr("tags", "_c15_x"), {Name: "appenderRef", List: []*node{{Fields: []field{attr("ref", ghost)}}}}}}
		return kind + ":" + ghost, true
	case "absent-property":
		probe.del("strDef")
		// a key that does not exist at all, or one that names a section (sub-tree) rather than a property
		ref := rapid.SampledFrom([]string{"${noSuchProperty}", "${appender}", "${logger}", "${appender.p1}", "${logger.lg1}"}).Draw(t, "absentRef")
		probe.Fields = append(probe.Fields, field{Name: "strDef", Val: ref}) // not Attr: rendered literally
		return kind + ":" + ref, true
	case "conflicting-keys":
		return kind, false // applied on the rendered map
	default: // missing-type
		c.Appenders["znotype"] = &node{Fields: []field{attr("fileName", "x")}}
		return kind, true
	}
}

func TestC15_Faults(t *testing.T) {
	vk.Rule(rule)
	base := vk.Scratch("c15f")
	n := 0
	rapid.Check(t, func(t *rapid.T) {
		n++
		dir := filepath.Join(base, strconv.Itoa(n))
		defer os.RemoveAll(dir)
		c, _ := genConfig(t, dir)
		if len(c.Loggers) == 0 || c.Loggers["lg1"] == nil {
			t.Skip("the faults are injected into a configuration with loggers")
		}
		desc, _ := injectFault(t, c, nil)
		if strings.HasPrefix(desc, "out-of-range") && vk.Known("C15:integer-attribute-silently-truncated") {
			vk.Excluded("C15:integer-attribute-silently-truncated")
			t.Skip("known finding excluded")
		}
		prepare(dir)
		m, _ := render(t, c, "F", rapid.Bool().Draw(t, "plainRendering"))
		if desc == "conflicting-keys" {
			// a scalar and a sub-tree under the same key
			keys := make([]string, 0, len(m))
			for k := range m {
				if !strings.HasSuffix(k, "!") && strings.Count(k, ".") >= 2 {
					keys = append(keys, k)
				}
			}
			sort.Strings(keys)
			if len(keys) == 0 {
				t.Skip("nothing to conflict with")
			}
			k := rapid.SampledFrom(keys).Draw(t, "conflictKey")
			m[k+".sub"] = "x"
		}
		err, p, hung := refresh(m)
		log.Destroy()
		closeLeaked(dir)
		vk.Eval()
		vk.Class("fault:" + strings.SplitN(desc, ":", 2)[0])
		vk.NonTrivial(desc + mapDesc(m))
		if hung {
			vk.HardFail("c15-hang", map[string]any{"config": m}, "C15: Refresh did not return within 20 s")
		}
		if p != nil {
			t.Fatalf("VERIF-VIOLATION C15: Refresh panicked instead of returning an error (fault %s): %v\n%s", desc, p, mapDesc(m))
		}
		if err == nil {
			t.Fatalf("VERIF-VIOLATION C15: Refresh accepted a configuration with fault %q\n%s", desc, mapDesc(m))
		}
		vk.Sample(map[string]any{"fault": desc, "error": firstLine(err)})
	})
}

// ---------------------------------------------------------------- generator 3: mutations (totality)

func TestC15_Mutations(t *testing.T) {
	vk.Rule(rule)
	base := vk.Scratch("c15m")
	n := 0
	junk := []string{"", " ", "!", "type", "Nope", "${x}", "${", "}", "{", "Type{", "a=b", "[0]", "[", "]", "..", ".", "~", "INFO~", "999999999999999999999", "-1", "0x", "\x00", "é", "true", "[]", "{}", "<nil>"}
	rapid.Check(t, func(t *rapid.T) {
		n++
		dir := filepath.Join(base, strconv.Itoa(n))
		defer os.RemoveAll(dir)
		c, _ := genConfig(t, dir)
		prepare(dir)
		m, _ := render(t, c, "M", false)
		keys := make([]string, 0, len(m))
		for k := range m {
			keys = append(keys, k)
		}
		sort.Strings(keys)
		nm := rapid.IntRange(1, 4).Draw(t, "nmut")
		var muts []string
		for i := 0; i < nm; i++ {
			k := rapid.SampledFrom(keys).Draw(t, "mk")
			switch rapid.IntRange(0, 7).Draw(t, "mkind") {
			case 0:
				delete(m, k)
				muts = append(muts, "delete "+k)
			case 1:
				m[k] = rapid.SampledFrom(junk).Draw(t, "junkV")
				muts = append(muts, "value "+k)
			case 2:
				m[k+rapid.SampledFrom([]string{".x", "[0]", "!", ".type", "[1].ref", "..", " "}).Draw(t, "suffix")] = rapid.SampledFrom(junk).Draw(t, "junkV2")
				muts = append(muts, "sibling "+k)
			case 3:
				v := []byte(m[k])
				if len(v) > 0 {
					i := rapid.IntRange(0, len(v)-1).Draw(t, "bi")
					v[i] = rapid.Byte().Draw(t, "bb")
					m[k] = string(v)
				}
				muts = append(muts, "byteflip "+k)
			case 4:
				v := m[k]
				if len(v) > 1 {
					i := rapid.IntRange(0, len(v)-1).Draw(t, "ci")
					m[k] = v[:i] + v[i+1:]
				}
				muts = append(muts, "drop-byte "+k)
			case 5:
				nk := rapid.SampledFrom(junk).Draw(t, "junkK") + k
				m[nk] = m[k]
				delete(m, k)
				muts = append(muts, "rename "+k)
			case 6:
				m[rapid.SampledFrom([]string{"appender", "logger", "appender.p1", "logger.root", "logger.root.tags", "appender!", "logger!", "!"}).Draw(t, "topKey")] = rapid.SampledFrom(junk).Draw(t, "junkTop")
				muts = append(muts, "top-level")
			default:
				m[k] = m[k] + m[k]
				muts = append(muts, "double "+k)
			}
		}
		err, p, hung := refresh(m)
		if err == nil && p == nil && !hung {
			// a mutation may leave the configuration valid: it must then also work
			done, pp := vk.Within(20*time.Second, func() {
				for _, tn := range tagNames {
					log.Error(context.Background(), tags[tn], log.Int("id", 1))
				}
			})
			if pp != nil || !done {
				p = fmt.Sprintf("logging after the accepted mutated configuration panicked/blocked: %v", pp)
			}
		}
		log.Destroy()
		closeLeaked(dir)
		vk.Eval()
		vk.Class("mutation")
		if err != nil {
			vk.Class("mutation:rejected")
		} else {
			vk.Class("mutation:accepted")
		}
		vk.NonTrivial(strings.Join(muts, ";") + mapDesc(m))
		if hung {
			vk.HardFail("c15-hang", map[string]any{"config": m}, "C15: Refresh did not return within 20 s")
		}
		if p != nil {
			t.Fatalf("VERIF-VIOLATION C15: Refresh (or logging right after it) panicked on a mutated configuration: %v\nmutations: %s\n%s", p, strings.Join(muts, "; "), mapDesc(m))
		}
	})
}

// TestRegress_C15: shrunk failures found before the fix: commits.
func TestRegress_C15(t *testing.T) {
	base := vk.Scratch("c15g")
	common := map[string]string{"appender.p1.type": "Probe", "appender.p1.str": "s", "appender.p1.kid.type": "KidA", "appender.p1.kidList[0].type": "KidA",
		"logger.lg1.type": "Logger", "logger.lg1.tags": "_c15_a", "logger.lg1.appenderRef.ref": "p1"}
	with := func(kv ...string) map[string]string {
		m := map[string]string{}
		for k, v := range common {
			m[k] = v
		}
		for i := 0; i+1 < len(kv); i += 2 {
			m[kv[i]] = kv[i+1]
		}
		return m
	}
	// out-of-range numeric attributes must be configuration errors
	for _, kv := range [][2]string{{"i16", "32768"}, {"i8", "300"}, {"u8", "256"}, {"i32Val", "2147483648"}, {"f32", "1e39"}} {
		prepare(base)
		err, p, _ := refresh(with("appender.p1."+kv[0], kv[1]))
		log.Destroy()
		vk.Eval()
		if p != nil || err == nil {
			t.Fatalf("VERIF-VIOLATION C15 regress: %s=%s: panic=%v err=%v (an error was expected)", kv[0], kv[1], p, err)
		}
	}
	// every registered logger type can be instantiated from configuration
	for _, typ := range []string{"Console", "Discard", "File", "RollingFile"} {
		prepare(base)
		m := with("logger.lg2.type", typ, "logger.lg2.tags", "_c15_b", "logger.lg2.fileDir", base, "logger.lg2.fileName", "r.log", "logger.lg2.rotation", "h")
		err, p, _ := refresh(m)
		log.Destroy()
		closeLeaked(base)
		vk.Eval()
		if p != nil || err != nil {
			t.Fatalf("VERIF-VIOLATION C15 regress: logger type %s cannot be instantiated: panic=%v err=%v", typ, p, firstLine(err))
		}
	}
}
