package vk

import (
	"context"
	"fmt"
	"strconv"
	"strings"
	"time"

	"github.com/go-spring/log"
)

// Controlled-schedule driver for AsyncLogger histories (C04, C06): the worker is single-stepped
// through a gated recording appender, so "buffer full" is a deterministic function of the history
// and a bounded-FIFO reference model (capacity N + one in-flight slot) predicts the outcome.

type AsyncSetup struct {
	Policy     string // Block | Discard | DiscardOldest
	Size       int    // buffer size (>= 100)
	ViaRefresh bool   // build through Refresh (string -> policy path) instead of exported fields
	Layout     bool   // logger-level layout: events reach the appender as formatted bytes
	Second     bool   // a second, ungated recording appender behind the gate (direct mode only)
	Prefill    int    // events submitted before the generated actions start (initial occupancy)
	FromNone   bool   // direct mode: the logger's range is [NONE,MAX); "dis" events use a level below NONE (NEG=-1), "ev0" events are enabled
	RefsOrder  int    // direct mode: permutation of the appender references (the restricted one first, ...): their order carries no meaning
	Restart    bool   // direct mode: the logger value has been through a Start/Stop cycle before (an AsyncLogger value may be started again)
}

func (s AsyncSetup) String() string {
	return fmt.Sprintf("policy=%s size=%d viaRefresh=%v layout=%v second=%v prefill=%d restart=%v fromNone=%v refsOrder=%d", s.Policy, s.Size, s.ViaRefresh, s.Layout, s.Second, s.Prefill, s.Restart, s.FromNone, s.RefsOrder)
}

// Action kinds: "ev" enabled event, "dis" event below the logger's level, "raw" raw write,
// "raw0" raw write with an empty payload (nil or zero-length: an item like any other), "evl" event
// at a user level registered after the logger was started (inside the logger's range),
// "rawL" raw write of a payload larger than the buffer-reuse cap (an item like any other),
// "evP" event at PANIC level, "ev0" event at NONE level (enabled when the logger's range starts at
// NONE, see AsyncSetup.FromNone) - the level of an event decides whether it is enabled, nothing else,
// "step" let the worker finish the in-flight item.
type AsyncAction struct {
	K string
}

type AsyncResult struct {
	Submitted     []int64 // ids of enabled submissions in order
	ExpDelivered  []int64 // model: delivered sequence after Stop
	ExpDiscards   int64
	Delivered     []int64 // observed at the gated appender
	Delivered2    []int64 // observed at the second appender (if any)
	Restricted    []int64 // observed at the reference whose range admits no submitted event (direct mode)
	HasRestricted bool
	RawIDs        map[int64]bool // which submissions were raw writes
	EmptyIDs      map[int64]bool // which of them had an empty payload
	HighIDs       map[int64]bool // events at PANIC level (admitted by the reference restricted to [ERROR,MAX))
	Counter       int64          // GetDiscardCounter(), -1 if unobservable (Refresh-built logger)
	Overflows     int            // submissions that met a full buffer
	BlockWaits    int            // Block submissions that had to wait
	PolicyVisible bool           // the three policies would have produced different survivors
	Violation     string         // first violation of a call-level expectation (blocking behaviour)
	Hang          string         // a wait that cannot legitimately take long did not finish
}

var (
	asyncTag    *log.Tag
	asyncHandle *log.LoggerWrapper
)

// InitAsyncNames registers the tag and handle the Refresh-built variant uses. Call from init().
func InitAsyncNames(tag, handle string) {
	asyncTag = log.RegisterTag(tag)
	asyncHandle = log.GetLogger(handle)
}

var allLevels = log.LevelRange{MinLevel: log.NoneLevel, MaxLevel: log.MaxLevel}

var levelNeg = log.RegisterLevel(-1, "NEG")

const waitLimit = 20 * time.Second

func waitSig(ch chan struct{}, what string, res *AsyncResult) bool {
	select {
	case <-ch:
		return true
	case <-time.After(waitLimit):
		if res.Hang == "" {
			res.Hang = what
		}
		return false
	}
}

// RunAsyncHistory executes the history against a real AsyncLogger and the reference model.
func RunAsyncHistory(setup AsyncSetup, tagName, handleName string, actions []AsyncAction) *AsyncResult {
	res := &AsyncResult{Counter: -1, RawIDs: map[int64]bool{}, EmptyIDs: map[int64]bool{}, HighIDs: map[int64]bool{}}
	ResetRecs()
	log.Destroy()
	gate := NewGate()
	SetBehavior("gate", gate)

	var direct *log.AsyncLogger
	var submitEvent func(id int64, enabled bool)
	var submitLate func(id int64)
	submitAt := func(id int64, lv log.Level) { log.Record(context.Background(), lv, asyncTag, 0, log.Int("id", id)) }
	var submitRaw func(id int64)
	var submitEmpty func(id int64)
	bigPad := strings.Repeat("P", 20000)
	var submitBig func(id int64)
	var stop func()

	if setup.ViaRefresh {
		m := map[string]string{
			"enableCaller":                               "false",
			"appender.gate.type":                         "Rec",
			"logger." + handleName + ".type":             "AsyncLogger",
			"logger." + handleName + ".tags":             tagName,
			"logger." + handleName + ".level":            "INFO",
			"logger." + handleName + ".bufferSize":       strconv.Itoa(setup.Size),
			"logger." + handleName + ".bufferFullPolicy": setup.Policy,
			"logger." + handleName + ".appenderRef.ref":  "gate",
		}
		if setup.Layout {
			m["logger."+handleName+".layout.type"] = "TextLayout"
		}
		if err := log.Refresh(m); err != nil {
			res.Violation = "Refresh rejected a valid AsyncLogger configuration: " + err.Error()
			log.Destroy()
			return res
		}
		submitEvent = func(id int64, enabled bool) {
			if enabled {
				log.Info(context.Background(), asyncTag, log.Int("id", id))
			} else {
				log.Debug(context.Background(), asyncTag, func() []log.Field { return []log.Field{log.Int("id", id)} })
			}
		}
		submitRaw = func(id int64) { _, _ = asyncHandle.Write([]byte("id=" + strconv.FormatInt(id, 10) + "\n")) }
		submitEmpty = func(id int64) {
			if id%2 == 0 {
				_, _ = asyncHandle.Write(nil)
			} else {
				_, _ = asyncHandle.Write([]byte{})
			}
		}
		submitBig = func(id int64) {
			_, _ = asyncHandle.Write([]byte("id=" + strconv.FormatInt(id, 10) + " " + bigPad + "\n"))
		}
		late := log.RegisterLevel(int32(310+setup.Size%180), "LATE"+strconv.Itoa(setup.Size%5)) // registered while the logger runs
		submitLate = func(id int64) { log.Record(context.Background(), late, asyncTag, 0, log.Int("id", id)) }
		stop = log.Destroy
	} else {
		g := &RecAppender{AppenderBase: log.AppenderBase{Name: "gate"}}
		_ = g.Start()
		gateRange := allLevels
		if !setup.FromNone && setup.Size%3 == 0 {
			gateRange = log.LevelRange{MinLevel: log.TraceLevel, MaxLevel: log.MaxLevel} // admits every event these histories submit, not NONE
		}
		refs := []*log.AppenderRef{{Appender: g, Level: gateRange}}
		if setup.Second {
			s2 := &RecAppender{AppenderBase: log.AppenderBase{Name: "second"}}
			_ = s2.Start()
			refs = append(refs, &log.AppenderRef{Appender: s2, Level: allLevels})
		}
		// a reference that admits none of the submitted events (they are INFO): it must see the raw
		// writes only, with or without a logger-level layout
		s3 := &RecAppender{AppenderBase: log.AppenderBase{Name: "restricted"}}
		_ = s3.Start()
		refs = append(refs, &log.AppenderRef{Appender: s3, Level: log.LevelRange{MinLevel: log.ErrorLevel, MaxLevel: log.MaxLevel}})
		switch setup.RefsOrder % 3 { // a logger built from exported fields lists its references in any order
		case 1:
			refs[0], refs[len(refs)-1] = refs[len(refs)-1], refs[0]
		case 2:
			refs = append(refs[1:], refs[0])
		}
		loggerRange := log.LevelRange{MinLevel: log.InfoLevel, MaxLevel: log.MaxLevel}
		if setup.FromNone {
			loggerRange = allLevels
		}
		pol := map[string]log.BufferFullPolicy{"Block": log.BufferFullPolicyBlock, "Discard": log.BufferFullPolicyDiscard, "DiscardOldest": log.BufferFullPolicyDiscardOldest}[setup.Policy]
		direct = &log.AsyncLogger{
			LoggerBase:       log.LoggerBase{Name: "direct", Level: loggerRange},
			AppenderRefs:     log.AppenderRefs{AppenderRefs: refs},
			BufferSize:       setup.Size,
			BufferFullPolicy: pol,
		}
		if setup.Layout {
			direct.Layout = &log.TextLayout{BaseLayout: log.BaseLayout{FileLineLength: 48}}
		}
		if err := direct.Start(); err != nil {
			res.Violation = "Start failed: " + err.Error()
			return res
		}
		if setup.Restart {
			// an earlier life of the same value: one event through it, stopped, started again
			e := log.GetEvent()
			e.Level, e.Time, e.Tag, e.Fields = log.InfoLevel, time.Unix(0, 0), tagName, []log.Field{log.Int("id", -7)}
			gate.Release <- struct{}{}
			direct.Append(e)
			if done, _ := Within(waitLimit, direct.Stop); !done {
				res.Hang = "Stop of the logger's first life did not return"
				return res
			}
			ResetRecsKeepLive()
			for len(gate.Entered) > 0 {
				<-gate.Entered
			}
			for len(gate.Done) > 0 {
				<-gate.Done
			}
			if err := direct.Start(); err != nil {
				res.Violation = "second Start of the same logger value failed: " + err.Error()
				return res
			}
		}
		submitAt = func(id int64, lv log.Level) {
			e := log.GetEvent()
			e.Level, e.Time, e.Tag = lv, time.Unix(0, 0), tagName
			e.Fields = []log.Field{log.Int("id", id)}
			direct.Append(e)
		}
		submitEvent = func(id int64, enabled bool) {
			e := log.GetEvent()
			e.Level = log.InfoLevel
			if !enabled {
				e.Level = log.DebugLevel
				if setup.FromNone {
					e.Level = levelNeg
				}
			}
			e.Time = time.Unix(0, 0)
			e.Tag = tagName
			e.Fields = []log.Field{log.Int("id", id)}
			direct.Append(e)
		}
		submitRaw = func(id int64) { direct.Write([]byte("id=" + strconv.FormatInt(id, 10) + "\n")) }
		submitEmpty = func(id int64) {
			if id%2 == 0 {
				direct.Write(nil)
			} else {
				direct.Write([]byte{})
			}
		}
		submitBig = func(id int64) { direct.Write([]byte("id=" + strconv.FormatInt(id, 10) + " " + bigPad + "\n")) }
		late := log.RegisterLevel(int32(310+setup.Size%180), "LATE"+strconv.Itoa(setup.Size%5)) // registered while the logger runs
		submitLate = func(id int64) {
			e := log.GetEvent()
			e.Level = late
			e.Time = time.Unix(0, 0)
			e.Tag = tagName
			e.Fields = []log.Field{log.Int("id", id)}
			direct.Append(e)
		}
		stop = direct.Stop
	}

	// ---- reference model
	var (
		inflight   bool
		inflightID int64
		q          []int64
		pendingID  int64 = -1
		pendingCh  chan struct{}
		nextID     int64 = 1
	)
	call := func(f func()) (returned bool) {
		done, p := Within(waitLimit, f)
		if p != nil && res.Violation == "" {
			res.Violation = fmt.Sprintf("log call panicked: %v", p)
		}
		return done
	}

	submit := func(kind string) {
		id := nextID
		nextID++
		do := func() {
			switch kind {
			case "ev":
				submitEvent(id, true)
			case "dis":
				submitEvent(id, false)
			case "evl":
				submitLate(id)
			case "evP":
				submitAt(id, log.PanicLevel)
			case "ev0":
				submitAt(id, log.NoneLevel)
			case "raw0":
				submitEmpty(id)
			case "rawL":
				submitBig(id)
			default:
				submitRaw(id)
			}
		}
		if kind == "dis" || (kind == "ev0" && !(setup.FromNone && !setup.ViaRefresh)) {
			// below the logger's range: neither delivered nor counted
			if !call(do) && res.Hang == "" {
				res.Hang = "a log call below the logger's level did not return"
			}
			return
		}
		res.Submitted = append(res.Submitted, id)
		if kind == "raw" || kind == "raw0" || kind == "rawL" {
			res.RawIDs[id] = true
		}
		if kind == "raw0" {
			res.EmptyIDs[id] = true
		}
		if kind == "evP" {
			res.HighIDs[id] = true
		}
		switch {
		case !inflight && len(q) == 0:
			if !call(do) {
				if res.Hang == "" {
					res.Hang = "a log call with an empty buffer and an idle worker did not return"
				}
				return
			}
			if !waitSig(gate.Entered, "worker did not pick up the only item", res) {
				return
			}
			inflight, inflightID = true, id
		case len(q) < setup.Size:
			if !call(do) {
				if res.Hang == "" {
					res.Hang = "a log call did not return although the buffer had room"
				}
				return
			}
			q = append(q, id)
		default: // buffer full, worker parked
			res.Overflows++
			switch setup.Policy {
			case "Discard":
				if !call(do) {
					if res.Violation == "" {
						res.Violation = "Discard policy: the log call waited for the appender (did not return while the gate stayed shut)"
					}
					return
				}
				res.ExpDiscards++
			case "DiscardOldest":
				if !call(do) {
					if res.Violation == "" {
						res.Violation = "DiscardOldest policy: the log call waited for the appender (did not return while the gate stayed shut)"
					}
					return
				}
				res.ExpDiscards++
				q = append(q[1:], id)
			default: // Block
				res.BlockWaits++
				ch := make(chan struct{})
				go func() {
					defer close(ch)
					defer func() { _ = recover() }()
					do()
				}()
				select {
				case <-ch:
					if res.Violation == "" {
						res.Violation = "Block policy: the log call returned although the buffer was full and the appender had not taken anything"
					}
					// keep the model consistent with "it waited": the item is considered enqueued later
				case <-time.After(30 * time.Millisecond):
				}
				pendingID, pendingCh = id, ch
			}
		}
	}

	step := func() {
		if !inflight {
			return
		}
		gate.Release <- struct{}{}
		if !waitSig(gate.Done, "worker did not finish the released item", res) {
			return
		}
		res.ExpDelivered = append(res.ExpDelivered, inflightID)
		if len(q) > 0 {
			inflightID, q = q[0], q[1:]
			if !waitSig(gate.Entered, "worker did not take the next buffered item", res) {
				return
			}
		} else {
			inflight = false
		}
		if pendingID >= 0 {
			// space is available now: the blocked call must return
			select {
			case <-pendingCh:
			case <-time.After(waitLimit):
				if res.Violation == "" {
					res.Violation = "Block policy: the waiting log call did not return after the appender took an item"
				}
			}
			if !inflight {
				// cannot happen with a full buffer, kept for completeness
				inflight, inflightID = true, pendingID
			} else {
				q = append(q, pendingID)
			}
			pendingID = -1
		}
	}

	for i := 0; i < setup.Prefill && res.Hang == ""; i++ {
		if i%3 == 1 {
			submit("raw") // the initial occupancy is a mix: what the worker delivers while stepping includes raw writes
		} else {
			submit("ev")
		}
	}
	for _, a := range actions {
		if res.Hang != "" {
			break
		}
		if pendingID >= 0 && a.K != "step" {
			// one blocked producer at a time: further submissions wait until the worker has moved
			step()
		}
		switch a.K {
		case "step":
			step()
		default:
			submit(a.K)
		}
	}
	if res.Hang != "" {
		return res
	}
	// everything still accepted is delivered in FIFO order once the gate opens
	if inflight {
		res.ExpDelivered = append(res.ExpDelivered, inflightID)
	}
	res.ExpDelivered = append(res.ExpDelivered, q...)
	if pendingID >= 0 {
		res.ExpDelivered = append(res.ExpDelivered, pendingID)
	}
	res.PolicyVisible = res.Overflows > 0 // from the first overflow on the three policies keep different survivors
	close(gate.Release)                   // open the gate for good
	if pendingID >= 0 {
		select {
		case <-pendingCh:
		case <-time.After(waitLimit):
			res.Hang = "Block policy: the waiting log call did not return after the gate opened"
			return res
		}
	}
	if done, p := Within(waitLimit+time.Duration(len(res.ExpDelivered))*time.Millisecond, stop); !done {
		res.Hang = "Stop/Destroy did not return with the gate open"
		return res
	} else if p != nil {
		res.Violation = fmt.Sprintf("Stop panicked: %v", p)
	}
	if direct != nil {
		res.Counter = direct.GetDiscardCounter()
	}
	// an empty raw write carries no id: the k-th empty item an appender saw is the k-th empty item
	// the model delivers (FIFO); surplus ones get id -2
	ids := func(items []Item) []int64 {
		var expEmpty []int64
		for _, id := range res.ExpDelivered {
			if res.EmptyIDs[id] {
				expEmpty = append(expEmpty, id)
			}
		}
		var out []int64
		for _, it := range items {
			id := it.ID
			if it.Raw && len(it.Bytes) == 0 {
				if len(expEmpty) > 0 {
					id, expEmpty = expEmpty[0], expEmpty[1:]
				} else {
					id = -2
				}
			}
			out = append(out, id)
		}
		return out
	}
	if r := Rec("gate"); r != nil {
		res.Delivered = ids(r.Items())
	}
	if r := Rec("restricted"); r != nil && !setup.ViaRefresh {
		res.HasRestricted = true
		res.Restricted = ids(r.Items())
	}
	if r := Rec("second"); r != nil && setup.Second {
		res.Delivered2 = ids(r.Items())
	}
	return res
}

// ---------------------------------------------------------------- randomised schedules (domain B)

type AsyncRandSetup struct {
	Policy      string
	Size        int
	Producers   int
	PerProducer int
	Speed       string // fast | delay | stall
	Layout      bool
}

func (s AsyncRandSetup) String() string {
	return fmt.Sprintf("policy=%s size=%d producers=%d per=%d speed=%s layout=%v", s.Policy, s.Size, s.Producers, s.PerProducer, s.Speed, s.Layout)
}

type AsyncRandResult struct {
	SubmittedEnabled int
	Disabled         map[int64]bool
	Delivered        []int64
	Counter          int64
	Hang             string
	Violation        string
}

// RunAsyncRandom lets P producers submit a fixed mix of events (some below the logger's level) and
// raw writes while the worker drains at the chosen speed; ids are producer*1e6+seq.
func RunAsyncRandom(s AsyncRandSetup) *AsyncRandResult {
	res := &AsyncRandResult{Disabled: map[int64]bool{}}
	ResetRecs()
	b := &Behavior{}
	switch s.Speed {
	case "delay":
		b.Delay = func(n int) time.Duration { return 20 * time.Microsecond }
	case "slow":
		b.Delay = func(n int) time.Duration { return 150 * time.Microsecond }
	case "stall":
		b.Delay = func(n int) time.Duration {
			if n%50 == 49 {
				return 3 * time.Millisecond
			}
			return 0
		}
	}
	SetBehavior("sink", b)
	g := &RecAppender{AppenderBase: log.AppenderBase{Name: "sink"}}
	_ = g.Start()
	pol := map[string]log.BufferFullPolicy{"Block": log.BufferFullPolicyBlock, "Discard": log.BufferFullPolicyDiscard, "DiscardOldest": log.BufferFullPolicyDiscardOldest}[s.Policy]
	l := &log.AsyncLogger{
		LoggerBase:       log.LoggerBase{Name: "rand", Level: log.LevelRange{MinLevel: log.InfoLevel, MaxLevel: log.MaxLevel}},
		AppenderRefs:     log.AppenderRefs{AppenderRefs: []*log.AppenderRef{{Appender: g, Level: allLevels}}},
		BufferSize:       s.Size,
		BufferFullPolicy: pol,
	}
	if s.Layout {
		l.Layout = &log.TextLayout{BaseLayout: log.BaseLayout{FileLineLength: 48}}
	}
	if err := l.Start(); err != nil {
		res.Violation = "Start failed: " + err.Error()
		return res
	}
	for p := 0; p < s.Producers; p++ {
		for i := 0; i < s.PerProducer; i++ {
			if (p+i)%7 == 3 {
				res.Disabled[int64(p)*1_000_000+int64(i)] = true
			} else {
				res.SubmittedEnabled++
			}
		}
	}
	done, pan := Within(120*time.Second, func() {
		ch := make(chan struct{})
		fin := make(chan any, s.Producers)
		for p := 0; p < s.Producers; p++ {
			go func() {
				defer func() { fin <- recover() }()
				<-ch
				for i := 0; i < s.PerProducer; i++ {
					id := int64(p)*1_000_000 + int64(i)
					switch {
					case (p+i)%7 == 3: // below the logger's level
						e := log.GetEvent()
						e.Level = log.DebugLevel
						e.Fields = []log.Field{log.Int("id", id)}
						l.Append(e)
					case (p+i)%3 == 0:
						l.Write([]byte("id=" + strconv.FormatInt(id, 10) + "\n"))
					default:
						e := log.GetEvent()
						e.Level = log.WarnLevel
						e.Time = time.Unix(0, 0)
						e.Tag = "_rand"
						e.Fields = []log.Field{log.Int("id", id)}
						l.Append(e)
					}
				}
			}()
		}
		close(ch)
		for p := 0; p < s.Producers; p++ {
			if r := <-fin; r != nil && res.Violation == "" {
				res.Violation = fmt.Sprintf("a log call panicked: %v", r)
			}
		}
		l.Stop()
	})
	if pan != nil {
		res.Violation = fmt.Sprintf("panic: %v", pan)
	}
	if !done {
		res.Hang = "producers + Stop did not finish within 120 s"
		return res
	}
	res.Counter = l.GetDiscardCounter()
	for _, it := range g.Items() {
		res.Delivered = append(res.Delivered, it.ID)
	}
	return res
}
