#!/usr/bin/env python3
"""Confirms a sub-agent's seeded change in a scratch worktree of /repo's HEAD and keeps it under
/verif/seeded/<prop>-<n>/ : demo passes on the clean tree, patch applies, library builds, pinned suite
(158) still passes, demo fails with the patch. Usage: import_seeds.py /tmp/seed/C08/_seed/1 [...]"""
import json, os, re, shutil, subprocess, sys

W = os.environ.get("VERIFYWT", "/tmp/verifywt")
ENV = dict(os.environ, GOFLAGS="-mod=mod", GOPROXY="off")
ENV.pop("GOSUMDB", None); ENV.pop("GOTOOLCHAIN", None)

def sh(cmd, cwd=None, timeout=900):
    try:
        r = subprocess.run(cmd, shell=True, cwd=cwd, env=ENV, stdout=subprocess.PIPE, stderr=subprocess.STDOUT, text=True, errors="replace", timeout=timeout)
        return r.returncode, r.stdout
    except subprocess.TimeoutExpired as e:
        return 124, (e.stdout or b"").decode() if isinstance(e.stdout, bytes) else (e.stdout or "")

def fresh():
    if not os.path.isdir(W):
        rc, out = sh(f"git -C /repo worktree add -q --detach {W} HEAD")
        assert rc == 0, out
    sh(f"git -C {W} checkout -q --detach $(git -C /repo rev-parse HEAD) && git -C {W} checkout -- . && git -C {W} clean -fdq")

def suite_ok():
    rc, out = sh("go test -json -vet=off -count=1 -timeout 25m ./...", cwd=W)
    passed = set()
    for line in out.splitlines():
        try:
            e = json.loads(line)
        except Exception:
            continue
        if e.get("Test") and e.get("Action") == "pass":
            passed.add(e["Package"] + "::" + e["Test"])
    want = set(json.load(open("/root/.vp/BASELINE.json"))["stable_pass"])
    return sorted(want - passed)

def main():
    for d in sys.argv[1:]:
        d = d.rstrip("/")
        prop = d.split("/")[-3]
        n = d.split("/")[-1]
        if "/seed2/" in d:
            n = str(int(n) + 2)  # second seeding round
        if "/seed3/" in d:
            n = str(int(n) + 4)  # third seeding round
        if "/seed9/" in d:
            n = str(int(n) + 16)  # ninth seeding round
        if "/seed8/" in d:
            n = str(int(n) + 14)  # eighth seeding round
        if "/seed7/" in d:
            n = str(int(n) + 12)  # seventh seeding round
        if "/seed6/" in d:
            n = str(int(n) + 10)  # sixth seeding round
        if "/seed5/" in d:
            n = str(int(n) + 8)  # fifth seeding round
        if "/seed4/" in d:
            n = str(int(n) + 6)  # fourth seeding round
        sid = f"{prop}-{n}"
        meta = json.load(open(os.path.join(d, "meta.json")))
        cmd = meta.get("demo_cmd", "")
        m = re.search(r"cp\s+(_seed/\d/\S+)\s+(\S+)", cmd)
        r = re.search(r"-run\s+'?([^'\s]+)'?\s+(\S+)", cmd)
        if not m or not r:
            print(sid, "CANNOT PARSE demo_cmd:", cmd); continue
        src = os.path.join(os.path.dirname(os.path.dirname(d)), m.group(1))
        dst = m.group(2)
        if dst.startswith("/tmp/seed/"):
            dst = "." 
        runre, pkg = r.group(1), r.group(2)
        tags = "-tags verif" if "-tags verif" in cmd else ""
        def demo():
            target = os.path.join(W, dst)
            if dst.endswith("/") or dst == ".":
                os.makedirs(target, exist_ok=True)
                target = os.path.join(target, os.path.basename(src))
            else:
                os.makedirs(os.path.dirname(target), exist_ok=True)
            shutil.copy(src, target)
            rc, out = sh(f"go test {tags} -vet=off -count=1 -timeout 10m -run '{runre}' {pkg}", cwd=W, timeout=700)
            os.remove(target)
            return rc, out
        res = {}
        fresh()
        rc, out = demo()
        res["demo_passes_without_patch"] = (rc == 0)
        if rc != 0:
            print(sid, "demo FAILS on clean tree:", out[-600:])
        fresh()
        rc, out = sh(f"git -C {W} apply {d}/patch.diff")
        res["patch_applies"] = (rc == 0)
        if rc != 0:
            print(sid, "patch does not apply:", out[-300:]); continue
        rc, out = sh("go build ./... ", cwd=W)
        res["compiles"] = (rc == 0)
        missing = suite_ok()
        res["existing_tests_pass"] = (missing == [])
        if missing:
            print(sid, "existing tests broken:", missing[:5])
        rc, out = demo()
        res["demo_fails_with_patch"] = (rc != 0)
        res["demo_tail_with_patch"] = out[-400:]
        fresh()
        ok = all(res[k] for k in ("demo_passes_without_patch", "patch_applies", "compiles", "existing_tests_pass", "demo_fails_with_patch"))
        print(sid, "CONFIRMED" if ok else "REJECTED", {k: v for k, v in res.items() if k != "demo_tail_with_patch"})
        if not ok:
            continue
        out_dir = f"/verif/seeded/{sid}"
        os.makedirs(out_dir, exist_ok=True)
        shutil.copy(os.path.join(d, "patch.diff"), out_dir)
        shutil.copy(src, out_dir)
        meta["property"] = prop
        meta["confirmed_by_main"] = res
        meta["what_i_ran"] = f"scratch worktree of /repo HEAD ({subprocess.run('git -C /repo rev-parse --short HEAD', shell=True, capture_output=True, text=True).stdout.strip()}): demo on clean tree (pass), git apply patch.diff, go build ./..., full pinned suite (158 pass), demo with patch (fail): go test -run '{runre}' {pkg} with the demo copied to {dst}"
        json.dump(meta, open(os.path.join(out_dir, "meta.json"), "w"), indent=1)

main()
