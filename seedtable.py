#!/usr/bin/env python3
"""Print the DESIGN.md sensitivity rows (markdown) for a set of seeded changes.

  ./seedtable.py 5 6        rows for seeded/<Cxx>-5 and <Cxx>-6, outcome taken from seeded/RESULTS_quick.json
"""
import json, os, sys, glob

ROOT = os.path.dirname(os.path.abspath(__file__))

# what the first-attempt survivors needed (the check was strengthened, never loosened)
SURVIVED_FIRST = {
    "C03-5": "only the Logger/AsyncLogger paths were generated; logger kinds Console/File/RollingFile added as paths",
    "C03-6": "every event had its own millisecond; now a few milliseconds are shared by events of several goroutines",
    "C04-5": "all appender references had the full level range; a reference restricted to [ERROR,MAX) plus mixed raw writes added to the async model",
    "C06-5": "histories had events only; raw writes are now mixed into the single-stepped Discard histories",
    "C06-6": "the RollingFile async policy scenario logged events only; raw writes from the same producer and a per-file order check added",
    "C14-6": "one scan per appender value; a second population and scan of the same appender added",
    "C15-5": "registered top-level properties were always spelled canonically; they now take part in the key-spelling renderings, with a bad-value fault",
    "C15-6": "the unknown-type fault was injected into appenders, loggers and layouts only; appenderRef elements added",
    "C18-5": "tag identity was compared within one configuration epoch; Refresh/Destroy cycles between registrations added (TestC18_Lifecycle)",
    "C19-5": "boundary decisions were taken by one goroutine at a time; spinning goroutines that reach every boundary together plus a 'held for the rest of the outage' oracle added (TestC19_BoundaryRace)",
    "C19-6": "nothing looked at which files exist after restoration; a file named for a boundary that fell into the outage is now a violation",
    "C20-5": "children finished within one interval; rolling kinds now also run with the calls straddling a real rotation boundary (crash at the end)",
    "C20-6": "the logger-level-layout path (appender receives bytes) had no crash-point kind; three such kinds added",
}

def main():
    ns = sys.argv[1:] or ["5", "6"]
    res = {r["id"]: r for r in json.load(open(os.path.join(ROOT, "seeded", "RESULTS_quick.json")))}
    print("| seeded change | what was changed (agent's words) | needs to manifest | outcome |\n|---|---|---|---|")
    for d in sorted(glob.glob(os.path.join(ROOT, "seeded", "C*-*"))):
        sid = os.path.basename(d)
        if sid.split("-")[1] not in ns:
            continue
        m = json.load(open(os.path.join(d, "meta.json")))
        r = res.get(sid, {})
        by = [p for p, c in (r.get("checks") or {}).items() if c.get("killed")]
        out = ("killed by " + ", ".join(f"`./check {p} quick`" for p in by)) if by else r.get("result", "not run")
        if sid in SURVIVED_FIRST:
            out += "; SURVIVED first: " + SURVIVED_FIRST[sid]
        cl = lambda s: s.replace("|", "/").replace("\n", " ")
        print(f"| {sid} | {cl(m['summary'])[:330]} | {cl(m['needs'])[:300]} | {out} |")

if __name__ == "__main__":
    main()
