// C07 - JSON layout: one valid JSON object per event that decodes to the logged data.
//
// Generator: vk.GenFieldList (every public constructor, hostile keys/strings, boundary numbers,
// nesting to depth 4) + generated event header. Oracle: expected ordered tree built from the
// generator's knowledge; output must be one line, pass the harness's strict RFC 8259 scanner and
// json.Valid, and decode (encoding/json token decoder, UseNumber) to the expected tree.
package c07

import (
	"bytes"
	"context"
	"encoding/json"
	"fmt"
	"os"
	"runtime"
	"strconv"
	"strings"
	"testing"
	"time"

	"github.com/go-spring/log"
	"pgregory.net/rapid"

	"verifharness/vk"
)

const rule = "events generated from every public field constructor (Bool..Strings, Ptr variants, Any over its dispatch arms, Reflect zoo, custom ArrayValue, Object to depth 4, FieldsFromMap) with hostile keys/strings and boundary numbers; non-trivial = a container directly after a scalar or after an empty container, or a key/string needing escaping or replacement, or a boundary number; distinct by the rendered description of the event"

var levels = []log.Level{log.NoneLevel, log.TraceLevel, log.DebugLevel, log.InfoLevel, log.WarnLevel, log.ErrorLevel, log.PanicLevel, log.FatalLevel, log.MaxLevel,
	log.RegisterLevel(1, "lowest"), log.RegisterLevel(350, "Notice"), log.RegisterLevel(450, "alert"), log.RegisterLevel(998, "TOP"),
	// distinct levels that share a code (an alias next to a built-in level, a second custom level at
	// the same severity, the zero Level next to NONE): the name is the event's, not the code's
	log.RegisterLevel(400, "WARNING"), log.RegisterLevel(300, "Information"), log.RegisterLevel(450, "alarm"), {},
	// a level name is a string value of the object like any other
	log.RegisterLevel(500, "err\"x\\y\n\t\x01"), log.RegisterLevel(610, "é日本<&>\x7f")}

func known(sig string) bool {
	for _, k := range strings.Split(os.Getenv("VERIF_KNOWN"), ",") {
		if k == sig {
			return true
		}
	}
	return false
}

type header struct {
	Level log.Level
	Time  time.Time
	File  string
	Line  int
	Tag   string
	Ctx   string
	W     int
}

func genTime(t *rapid.T) time.Time {
	// years 1..9999 in fixed zones -14h..+14h, arbitrary nanoseconds
	sec := rapid.Int64Range(-62135596800+86400*2, 253402300799-86400*2).Draw(t, "unix")
	if rapid.Bool().Draw(t, "recent") {
		sec = rapid.Int64Range(0, 4102444800).Draw(t, "unixRecent")
	}
	ns := rapid.Int64Range(0, 999999999).Draw(t, "nanos")
	off := rapid.IntRange(-14*3600, 14*3600).Draw(t, "zoneOffset")
	return time.Unix(sec, ns).In(time.FixedZone("z", off))
}

func genHeader(t *rapid.T, hostile bool) header {
	var h header
	h.Level = rapid.SampledFrom(levels).Draw(t, "level")
	h.Time = genTime(t)
	switch rapid.IntRange(0, 4).Draw(t, "fileK") {
	case 0:
		h.File = ""
	case 1:
		h.File = "/home/u/go/src/app/" + rapid.StringMatching(`[a-z_]{1,12}\.go`).Draw(t, "file")
	case 2:
		h.File = strings.Repeat(rapid.StringMatching(`[a-z]{1,6}/`).Draw(t, "seg"), rapid.IntRange(1, 60).Draw(t, "segs")) + "x.go"
	case 3:
		h.File = rapid.StringMatching(`[ -~]{0,60}`).Draw(t, "fileAscii")
	default:
		if hostile {
			h.File = string(rapid.SliceOfN(rapid.Byte(), 0, 80).Draw(t, "fileBytes"))
		} else {
			h.File = "dir/é日本/" + rapid.StringMatching(`[a-z]{0,40}`).Draw(t, "fileU") + ".go"
		}
	}
	h.Line = rapid.IntRange(0, 99999999).Draw(t, "line")
	h.Tag = rapid.SampledFrom([]string{"_app_def", "aaa", "_com_request_in", "a1_b2_c3_d4", "", "tag with space"}).Draw(t, "tag")
	if hostile && rapid.IntRange(0, 5).Draw(t, "tagHostile") == 0 {
		h.Tag = string(rapid.SliceOfN(rapid.Byte(), 0, 12).Draw(t, "tagBytes"))
	}
	if rapid.Bool().Draw(t, "hasCtx") {
		if hostile {
			h.Ctx = rapid.OneOf(rapid.StringMatching(`[ -~]{1,30}`), rapid.String(), rapid.Just("trace\n\"id\"\xff")).Draw(t, "ctx")
		} else {
			h.Ctx = rapid.StringMatching(`[ -~]{1,30}`).Draw(t, "ctx")
		}
	}
	h.W = rapid.SampledFrom([]int{48, 48, 200, 10, 3, 1000}).Draw(t, "width")
	return h
}

func (h header) desc() string {
	return fmt.Sprintf("level=%s time=%s file=%q line=%d tag=%q ctx=%q W=%d", h.Level.Name(), h.Time.Format(time.RFC3339Nano), h.File, h.Line, h.Tag, h.Ctx, h.W)
}

// checkJSONLine applies the whole C07 oracle to one emitted line.
func checkJSONLine(line []byte, h header, fileLine string, ctxExp, fldExp []vk.EM) error {
	if len(line) == 0 || line[len(line)-1] != '\n' {
		return fmt.Errorf("output does not end in a newline: %q", line)
	}
	body := line[:len(line)-1]
	if bytes.IndexByte(body, '\n') >= 0 {
		return fmt.Errorf("output spans more than one line: %q", line)
	}
	if err := vk.ValidateJSON(body); err != nil {
		return fmt.Errorf("not RFC 8259 JSON (own scanner): %v: %q", err, body)
	}
	if !json.Valid(body) {
		return fmt.Errorf("encoding/json rejects the line: %q", body)
	}
	root, err := vk.DecodeOrdered(body)
	if err != nil {
		return fmt.Errorf("does not decode: %v: %q", err, body)
	}
	if root.Kind != 'o' {
		return fmt.Errorf("top level is not an object: %q", body)
	}
	ms := root.Members
	nh := 4
	if h.Ctx != "" {
		nh = 5
	}
	if len(ms) < nh {
		return fmt.Errorf("header members missing: %q", body)
	}
	wantKeys := []string{"level", "time", "fileLine", "tag", "ctxString"}[:nh]
	for i, k := range wantKeys {
		if ms[i].Key != k || ms[i].Val.Kind != 's' {
			return fmt.Errorf("member %d is %q (kind %c), expected string member %q: %q", i, ms[i].Key, ms[i].Val.Kind, k, body)
		}
	}
	if !strings.EqualFold(ms[0].Val.Str, vk.SanitizeString(h.Level.Name())) {
		return fmt.Errorf("level is %q, event level is %q", ms[0].Val.Str, h.Level.Name())
	}
	if ms[1].Val.Str != vk.ExpTime(h.Time) {
		return fmt.Errorf("time is %q, expected %q", ms[1].Val.Str, vk.ExpTime(h.Time))
	}
	if ms[2].Val.Str != vk.SanitizeString(fileLine) {
		return fmt.Errorf("fileLine is %q, expected %q", ms[2].Val.Str, vk.SanitizeString(fileLine))
	}
	if ms[3].Val.Str != vk.SanitizeString(h.Tag) {
		return fmt.Errorf("tag is %q, expected %q", ms[3].Val.Str, vk.SanitizeString(h.Tag))
	}
	if h.Ctx != "" && ms[4].Val.Str != vk.SanitizeString(h.Ctx) {
		return fmt.Errorf("ctxString is %q, expected %q", ms[4].Val.Str, vk.SanitizeString(h.Ctx))
	}
	exp := append(append([]vk.EM{}, ctxExp...), fldExp...)
	return vk.CompareMembers("$", exp, ms[nh:])
}

func opts() vk.FieldOpts {
	return vk.FieldOpts{NoNonFinite: known("C07:nonfinite-float-token")}
}

func record(st *vk.FieldStat, key string, h header) {
	vk.Eval()
	if st.NonTrivial() {
		vk.NonTrivial(key)
	}
	if st.ContainerAfterScalar > 0 {
		vk.Class("container-after-scalar")
	}
	if st.ContainerAfterEmpty > 0 {
		vk.Class("container-after-empty-container")
	}
	if st.Escaping > 0 {
		vk.Class("escaping-needed")
	}
	if st.BoundaryNum > 0 {
		vk.Class("boundary-number")
	}
	if st.NonFinite > 0 {
		vk.Class("non-finite-float")
	}
	if st.Unmarshallable > 0 {
		vk.Class("unmarshallable")
	}
	if st.MaxDepth >= 3 {
		vk.Class("object-depth>=3")
	}
	for k, n := range st.Kinds {
		vk.ClassN("ctor:"+k, int64(n))
	}
	if h.Ctx != "" {
		vk.Class("with-ctx-string")
	}
}

var layouts = map[int]*log.JSONLayout{}

var laterEvent = &log.Event{Level: log.InfoLevel, Time: time.Date(2026, 5, 6, 7, 8, 9, 0, time.UTC), File: "later.go", Line: 2, Tag: "_later", Fields: []log.Field{log.String("k", "~~~~~~~~~~~~~~~~")}}

// TestC07_Direct formats generated events with JSONLayout.ToBytes.
func TestC07_Direct(t *testing.T) {
	vk.Rule(rule)
	if known("C07:nonfinite-float-token") {
		vk.Excluded("C07:nonfinite-float-token")
	}
	rapid.Check(t, func(t *rapid.T) {
		var st vk.FieldStat
		h := genHeader(t, true)
		ctx := vk.GenFieldList(t, "ctx", 3, &st, opts())
		fld := vk.GenFieldList(t, "fld", 7, &st, opts())
		lay := layouts[h.W] // long-lived layout instances, reused across events
		if lay == nil {
			lay = &log.JSONLayout{BaseLayout: log.BaseLayout{FileLineLength: h.W}}
			layouts[h.W] = lay
		}
		if rapid.IntRange(0, 9).Draw(t, "afterOversized") == 0 {
			// an earlier event whose line is larger than the buffer-reuse cap: what it leaves in the
			// buffer pool must not show up in the next line
			big := &log.Event{Level: log.ErrorLevel, Time: h.Time, File: "big.go", Line: 1, Tag: "_big",
				Fields: []log.Field{log.String("dump", strings.Repeat(rapid.SampledFrom([]string{"Z", "stack\n\tframe ", "é"}).Draw(t, "bigUnit"), rapid.IntRange(11000, 40000).Draw(t, "bigLen")))}}
			_ = lay.ToBytes(big)
			vk.Class("after-oversized-line")
		}
		e := &log.Event{Level: h.Level, Time: h.Time, File: h.File, Line: h.Line, Tag: h.Tag, Fields: fld.Fields, CtxString: h.Ctx, CtxFields: ctx.Fields}
		// the buffer-reuse cap (property bufferCap) at and around the capacities a line buffer really takes
		bc := rapid.SampledFrom([]int{10240, 10240, 64, 128, 256, 512, 1024, 2048, 4096, 8192, 100, 1000}).Draw(t, "bufferCap")
		log.BufferCap.Store(int32(bc))
		defer log.BufferCap.Store(10240)
		vk.Class(fmt.Sprintf("bufferCap:%d", bc))
		// the line is the caller's once ToBytes has returned (an asynchronous logger queues it): it is
		// held un-copied while the same goroutine formats a later event
		raw := lay.ToBytes(e)
		line := bytes.Clone(raw)
		_ = lay.ToBytes(laterEvent)
		if !bytes.Equal(raw, line) {
			t.Fatalf("VERIF-VIOLATION C07: the line handed out by ToBytes changed while a later event was formatted (bufferCap=%d, len=%d cap=%d)\nwas: %q\nnow: %q", bc, len(raw), cap(raw), line, raw)
		}
		desc := h.desc() + " ctx=[" + strings.Join(ctx.Desc, "; ") + "] fields=[" + strings.Join(fld.Desc, "; ") + "]"
		record(&st, desc, h)
		if len(desc) < 400 {
			vk.Sample(map[string]any{"event": desc, "output": string(line)})
		}
		if err := checkJSONLine(line, h, vk.ExpFileLine(h.File, h.Line, h.W), ctx.Exp, fld.Exp); err != nil {
			t.Fatalf("VERIF-VIOLATION C07: %v\nevent: %s", err, desc)
		}
	})
}

// ---------------------------------------------------------------- end to end

type ctxKey struct{}

type e2eCtx struct {
	t  time.Time
	s  string
	fs []log.Field
}

var (
	e2eTag   = log.RegisterTag("_c07_e2e")
	e2eReady bool
	console  = &vk.Capture{}
)

var e2eCaller = true

func setupE2E(t vk.TB) { configureE2E(t, true) }

// configureE2E (re)builds the end-to-end logger with caller lookup on or off.
func configureE2E(t vk.TB, caller bool) {
	if e2eReady && caller == e2eCaller {
		return
	}
	log.Destroy()
	e2eReady, e2eCaller = true, caller
	log.Stdout = console
	log.TimeNow = func(ctx context.Context) time.Time { return ctx.Value(ctxKey{}).(*e2eCtx).t }
	log.StringFromContext = func(ctx context.Context) string { return ctx.Value(ctxKey{}).(*e2eCtx).s }
	log.FieldsFromContext = func(ctx context.Context) []log.Field { return ctx.Value(ctxKey{}).(*e2eCtx).fs }
	err := log.Refresh(map[string]string{
		"enableCaller":                strconv.FormatBool(caller),
		"fastCaller":                  "false",
		"bufferCap":                   "10KB",
		"appender.con.type":           "Console",
		"appender.con.layout.type":    "JSONLayout",
		"logger.root.type":            "Logger",
		"logger.root.level":           "NONE~TOP",
		"logger.root.appenderRef.ref": "con",
	})
	if err != nil {
		t.Fatalf("VERIF-INCONCLUSIVE C07: cannot configure the end-to-end logger: %v", err)
	}
}

// TestC07_EndToEnd logs generated events through log.Record and a Refresh-built logger with a
// console appender using the JSON layout.
func TestC07_EndToEnd(t *testing.T) {
	vk.Rule(rule)
	setupE2E(t)
	rapid.Check(t, func(t *rapid.T) {
		var st vk.FieldStat
		h := genHeader(t, true)
		if h.Level.Code() >= 998 || h.Level.Code() < 0 {
			h.Level = log.InfoLevel
		}
		h.Tag = "_c07_e2e"
		h.W = 48
		// caller lookup is a global option; with it off the location is empty and the fileLine member
		// is still there (":0")
		configureE2E(t, rapid.SampledFrom([]bool{true, true, true, false}).Draw(t, "enableCaller"))
		ctx := vk.GenFieldList(t, "ctx", 2, &st, opts())
		fld := vk.GenFieldList(t, "fld", 6, &st, opts())
		fs := ctx.Fields
		if len(fs) >= 1 && rapid.Bool().Draw(t, "sharedBacking") {
			// the hook hands out prefixes of one slice (a child scope extends its parent's fields):
			// an earlier event got arr[:k], this event gets all of arr - and must find it untouched
			arr := make([]log.Field, len(fs))
			copy(arr, fs)
			k := rapid.IntRange(0, len(fs)-1).Draw(t, "prefix")
			pre := vk.GenFieldList(t, "prefld", 3, &st, opts())
			if len(pre.Fields) == 0 {
				pre.Fields = []log.Field{log.String("earlier", "event")}
			}
			log.Record(context.WithValue(context.Background(), ctxKey{}, &e2eCtx{t: h.Time, s: h.Ctx, fs: arr[:k]}), h.Level, e2eTag, 1, pre.Fields...)
			fs = arr
			vk.Class("ctx-fields-share-backing-array-with-earlier-event")
		}
		c := context.WithValue(context.Background(), ctxKey{}, &e2eCtx{t: h.Time, s: h.Ctx, fs: fs})
		console.Reset()
		_, file, ln, _ := runtime.Caller(0)
		log.Record(c, h.Level, e2eTag, 1, fld.Fields...)
		line := console.Bytes()
		h.File, h.Line = file, ln+1
		if !e2eCaller {
			h.File, h.Line = "", 0
			vk.Class("end-to-end:caller-off")
		}
		desc := "e2e " + h.desc() + " ctx=[" + strings.Join(ctx.Desc, "; ") + "] fields=[" + strings.Join(fld.Desc, "; ") + "]"
		record(&st, desc, h)
		vk.Class("end-to-end")
		if err := checkJSONLine(line, h, vk.ExpFileLine(h.File, h.Line, h.W), ctx.Exp, fld.Exp); err != nil {
			t.Fatalf("VERIF-VIOLATION C07 end-to-end: %v\nevent: %s", err, desc)
		}
	})
}

// FuzzC07 drives the same property from coverage-guided bytes (thorough tier).
func FuzzC07(f *testing.F) {
	f.Fuzz(rapid.MakeFuzz(func(t *rapid.T) {
		var st vk.FieldStat
		h := genHeader(t, true)
		ctx := vk.GenFieldList(t, "ctx", 3, &st, opts())
		fld := vk.GenFieldList(t, "fld", 7, &st, opts())
		lay := &log.JSONLayout{BaseLayout: log.BaseLayout{FileLineLength: h.W}}
		e := &log.Event{Level: h.Level, Time: h.Time, File: h.File, Line: h.Line, Tag: h.Tag, Fields: fld.Fields, CtxString: h.Ctx, CtxFields: ctx.Fields}
		line := bytes.Clone(lay.ToBytes(e))
		if err := checkJSONLine(line, h, vk.ExpFileLine(h.File, h.Line, h.W), ctx.Exp, fld.Exp); err != nil {
			t.Fatalf("VERIF-VIOLATION C07 fuzz: %v\nevent: %s fields=[%s]", err, h.desc(), strings.Join(fld.Desc, "; "))
		}
	}))
}

// TestRegress_C07: shrunk failure found before the fix: commit (non-finite floats emitted bare).
func TestRegress_C07(t *testing.T) {
	lay := &log.JSONLayout{BaseLayout: log.BaseLayout{FileLineLength: 48}}
	for _, f := range []log.Field{log.Float("", float32(posInf())), log.Float("n", nan()), log.Floats("fs", []float64{1, -posInf()}), log.Any("a", nan())} {
		e := &log.Event{Level: log.NoneLevel, Time: time.Unix(0, 0).UTC(), Fields: []log.Field{f}}
		line := bytes.Clone(lay.ToBytes(e))
		vk.Eval()
		if err := vk.ValidateJSON(line[:len(line)-1]); err != nil || !json.Valid(line) {
			t.Fatalf("VERIF-VIOLATION C07 regress: non-finite float makes the line invalid JSON: %q (%v)", line, err)
		}
	}
}

// F20: log.Array(key, nil) made the layout panic (unchecked type assertion on a nil interface).
func TestRegress_C07_NilArray(t *testing.T) {
	lay := &log.JSONLayout{BaseLayout: log.BaseLayout{FileLineLength: 48}}
	e := &log.Event{Level: log.NoneLevel, Time: time.Unix(0, 0).UTC(), Fields: []log.Field{log.Array("k", nil), log.Int("after", 7)}}
	var line []byte
	p := vk.Catch(func() { line = bytes.Clone(lay.ToBytes(e)) })
	vk.Eval()
	if p != nil {
		t.Fatalf("VERIF-VIOLATION C07 regress: an event with log.Array(key, nil) makes the JSON layout panic: %v", p)
	}
	if !bytes.Contains(line, []byte(`"k":null,"after":7`)) {
		t.Fatalf("VERIF-VIOLATION C07 regress: log.Array(key, nil) is not logged as null: %q", line)
	}
}

func posInf() float64 { var z float64; return 1 / z }
func nan() float64    { var z float64; return z / z }
