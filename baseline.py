#!/usr/bin/env python3
"""Runs /repo's pinned suite with the verif guard OFF and compares with /root/.vp/BASELINE.json."""
import json, os, subprocess, sys
env = dict(os.environ, GOFLAGS="-mod=mod", GOPROXY="off")
env.pop("GOSUMDB", None); env.pop("GOTOOLCHAIN", None)
tags = sys.argv[1:]  # e.g. -tags verif to see that the hooks do not break the suite either
r = subprocess.run(["go", "test", "-json", "-vet=off", "-count=1", "-timeout", "25m"] + tags + ["./..."], cwd="/repo", env=env, stdout=subprocess.PIPE, stderr=subprocess.STDOUT, text=True)
passed = set()
failed = set()
for line in r.stdout.splitlines():
    try:
        e = json.loads(line)
    except Exception:
        continue
    if e.get("Test") and e.get("Action") in ("pass", "fail"):
        (passed if e["Action"] == "pass" else failed).add(e["Package"] + "::" + e["Test"])
base = json.load(open("/root/.vp/BASELINE.json"))
want = set(base["stable_pass"])
missing = sorted(want - passed)
print(f"passed={len(passed)} failed={len(failed)} baseline={len(want)} missing={len(missing)}")
for m in missing:
    print("MISSING", m)
for f in sorted(failed - set(base.get("always_fail", []))):
    print("NEW-FAIL", f)
sys.exit(1 if missing else 0)
