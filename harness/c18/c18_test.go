// C18 - tag names: exactly the documented language is accepted; idempotent registry.
//
// This process never calls Refresh, so registration is always allowed.
// Oracle: compiled regular expression + length bounds (no code shared with isValidTag) and a model
// set of registered names (initial snapshot + accepted names).
package c18

import (
	"fmt"
	"regexp"
	"slices"
	"sort"
	"strings"
	"testing"

	"github.com/go-spring/log"
	"pgregory.net/rapid"

	"verifharness/vk"
)

const rule = "strings enumerated over a 10-symbol boundary alphabet, all segment-length compositions at total length 2..38 with leading/trailing/doubled underscore variants, and rapid random strings; non-trivial = accepted name, or rejected name that is within one edit of the language (right alphabet but wrong structure/length); distinct by string"

var tagRe = regexp.MustCompile(`^_?[a-z0-9]+(_[a-z0-9]+){0,3}$`)

func specAccepts(s string) bool { return len(s) >= 3 && len(s) <= 36 && tagRe.MatchString(s) }

var (
	model    = map[string]*log.Tag{}
	modelSet = map[string]bool{}
	inited   bool
)

func initModel() {
	if inited {
		return
	}
	inited = true
	for _, n := range log.GetAllTags() {
		modelSet[n] = true
	}
}

type tagCase struct {
	Name  string `json:"name"`
	Hex   string `json:"hex"`
	Error string `json:"error"`
}

func failCase(t vk.TB, name, msg string) {
	p := vk.SaveCase("c18", tagCase{Name: name, Hex: fmt.Sprintf("%x", name), Error: msg})
	t.Fatalf("VERIF-VIOLATION C18: %s (name %q, case %s)", msg, name, p)
}

var sinceSnapshot int
var held, heldCopy []string

// checkName registers name and compares with the specification.
func checkName(t vk.TB, name string) (accepted bool) {
	initModel()
	want := specAccepts(name)
	var tag *log.Tag
	p := vk.Catch(func() { tag = log.RegisterTag(name) })
	got := p == nil
	if got != want {
		if got {
			modelSet[name] = true
		}
		failCase(t, name, fmt.Sprintf("RegisterTag accepted=%v, specification says accepted=%v (panic value %v)", got, want, p))
	}
	if !got {
		sinceSnapshot++
		if sinceSnapshot >= 20000 {
			sinceSnapshot = 0
			checkRegistry(t, "after rejected name "+fmt.Sprintf("%q", name))
		}
		return false
	}
	if tag == nil {
		failCase(t, name, "accepted name returned a nil tag")
	}
	if prev, ok := model[name]; ok && prev != tag {
		failCase(t, name, "registering an accepted name twice returned a different tag")
	}
	model[name] = tag
	modelSet[name] = true
	if held != nil {
		// a list handed out earlier is a snapshot: registering another name must not change it
		for i := range held {
			if held[i] != heldCopy[i] {
				failCase(t, name, fmt.Sprintf("registering a name changed a list returned earlier by GetAllTags (entry %d was %q, now %q)", i, heldCopy[i], held[i]))
			}
		}
		held = nil
	}
	if len(modelSet)%97 == 0 {
		held = log.GetAllTags()
		heldCopy = slices.Clone(held)
	}
	var again *log.Tag
	if p := vk.Catch(func() { again = log.RegisterTag(name) }); p != nil || again != tag {
		failCase(t, name, fmt.Sprintf("second registration: panic=%v same pointer=%v", p, again == tag))
	}
	return true
}

func checkRegistry(t vk.TB, when string) {
	initModel()
	// a caller may post-process the returned list in place; later answers must not change
	scribble := log.GetAllTags()
	for i := range scribble {
		scribble[i] = "zz_scribbled"
	}
	got := log.GetAllTags()
	want := make([]string, 0, len(modelSet))
	for n := range modelSet {
		want = append(want, n)
	}
	sort.Strings(want)
	g := slices.Clone(got)
	sort.Strings(g)
	if !slices.Equal(g, want) {
		// find a difference
		gs := map[string]bool{}
		for _, n := range g {
			gs[n] = true
		}
		for _, n := range want {
			if !gs[n] {
				failCase(t, n, "GetAllTags lacks a registered name "+when)
			}
		}
		for _, n := range g {
			if !modelSet[n] {
				failCase(t, n, "GetAllTags lists a name that was never (successfully) registered "+when)
			}
		}
		failCase(t, "", "GetAllTags has duplicates "+when)
	}
}

func nearMiss(s string) bool {
	// right alphabet, wrong structure or length
	for i := 0; i < len(s); i++ {
		c := s[i]
		if !(c >= 'a' && c <= 'z') && !(c >= '0' && c <= '9') && c != '_' {
			return false
		}
	}
	return true
}

func TestC18_Replay(t *testing.T) {
	p := vk.ReplayCase()
	if p == "" {
		t.Skip("no VERIF_REPLAY_CASE")
	}
	var c tagCase
	if err := vk.LoadCase(p, &c); err != nil {
		t.Fatal(err)
	}
	checkName(t, c.Name)
	checkRegistry(t, "replay")
}

var alphabet = []byte{'a', 'z', '0', '9', '_', 'A', '-', ' ', '{', '`'}

func TestC18_ExhaustiveAlphabet(t *testing.T) {
	if vk.ReplayCase() != "" {
		t.Skip()
	}
	vk.Rule(rule)
	maxLen := 5
	if vk.Thorough() {
		maxLen = 8
	}
	shard, shards := vk.Shard()
	var total, nt int64
	var rec func(prefix []byte, n int)
	rec = func(prefix []byte, n int) {
		if len(prefix) == n {
			s := string(prefix)
			acc := checkName(t, s)
			total++
			if acc || nearMiss(s) {
				nt++
			}
			return
		}
		for _, c := range alphabet {
			rec(append(prefix, c), n)
		}
	}
	for n := 0; n <= maxLen; n++ {
		if n == 0 {
			if shard == 0 {
				rec(nil, 0)
			}
			continue
		}
		for i, c := range alphabet {
			if i%shards != shard {
				continue
			}
			rec([]byte{c}, n)
		}
	}
	space := fmt.Sprintf("all strings of length <= %d over {a z 0 9 _ A - space { `}", maxLen)
	vk.EvalN(total)
	vk.NonTrivialBulk(space, nt)
	vk.ClassN("alphabet-enumeration", total)
	vk.Exhaustive(space, true)
	checkRegistry(t, "after alphabet enumeration")
	vk.Sample(map[string]any{"space": space, "examples": []string{"", "a_a", "_a_", "a__a", "_aa", "a_a_a_a_a", "aA0", "a-z"}})
}

// compositions enumerates all ways to write total as k positive parts.
func compositions(total, k int, f func(parts []int)) {
	parts := make([]int, k)
	var rec func(i, left int)
	rec = func(i, left int) {
		if i == k-1 {
			if left >= 1 {
				parts[i] = left
				f(parts)
			}
			return
		}
		for v := 1; v <= left-(k-1-i); v++ {
			parts[i] = v
			rec(i+1, left-v)
		}
	}
	rec(0, total)
}

const segChars = "az09bcxy5m"

func TestC18_Compositions(t *testing.T) {
	if vk.ReplayCase() != "" {
		t.Skip()
	}
	vk.Rule(rule)
	shard, shards := vk.Shard()
	var total, nt int64
	var sb strings.Builder
	for L := 1; L <= 38; L++ { // L = number of non-underscore characters
		if L%shards != shard {
			continue
		}
		for k := 1; k <= 5 && k <= L; k++ {
			compositions(L, k, func(parts []int) {
				for variant := 0; variant < 4*k; variant++ {
					lead := variant&1 == 1
					trail := variant&2 == 2
					dbl := variant/4 - 1 // -1: none; 0..k-2: index of the separator that is doubled
					sb.Reset()
					if lead {
						sb.WriteByte('_')
					}
					pos := 0
					for i, p := range parts {
						if i > 0 {
							sb.WriteByte('_')
							if dbl == i-1 {
								sb.WriteByte('_')
							}
						}
						for j := 0; j < p; j++ {
							sb.WriteByte(segChars[pos%len(segChars)])
							pos++
						}
					}
					if trail {
						sb.WriteByte('_')
					}
					s := sb.String()
					if len(s) < 2 || len(s) > 38 {
						continue
					}
					checkName(t, s)
					total++
					nt++ // every one of these is in the language or one structural edit away
				}
			})
		}
	}
	space := "all compositions of 1..38 name characters into 1..5 segments x {leading _, trailing _, one doubled _}, total length 2..38"
	vk.EvalN(total)
	vk.NonTrivialBulk(space, nt)
	vk.ClassN("compositions", total)
	vk.Exhaustive(space, true)
	checkRegistry(t, "after compositions")
	vk.Sample(map[string]any{"space": space, "examples": []string{"az", "az0", "_az09bcxy5maz09bcxy5maz09bcxy5maz09b", "a_z_0_9_b", "a__z", "_a_z_"}})
}

func TestC18_Random(t *testing.T) {
	if vk.ReplayCase() != "" {
		t.Skip()
	}
	vk.Rule(rule)
	part := rapid.StringMatching(`[a-z0-9]{1,12}`)
	rapid.Check(t, func(t *rapid.T) {
		switch rapid.IntRange(0, 3).Draw(t, "kind") {
		case 0: // arbitrary bytes
			s := string(rapid.SliceOfN(rapid.Byte(), 0, 45).Draw(t, "bytes"))
			checkName(t, s)
			vk.Class("random-bytes")
		case 1: // near the language
			s := rapid.StringMatching(`_{0,2}[a-z0-9A-Z]{0,10}(_{1,2}[a-z0-9]{0,9}){0,5}_{0,1}`).Draw(t, "near")
			acc := checkName(t, s)
			vk.Class("random-near")
			if acc || nearMiss(s) {
				vk.NonTrivial(s)
			}
			vk.Sample(map[string]any{"kind": "near", "name": s, "accepted": acc})
			if len(s) > 0 {
				// the same name with one character replaced by a neighbour of the accepted ranges
				// ('0'-1, '9'+1, 'a'-1, 'z'+1, the upper-case bounds and their neighbours)
				i := rapid.IntRange(0, len(s)-1).Draw(t, "pos")
				c := rapid.SampledFrom([]byte{'/', ':', '`', '{', '@', 'Z', '[', '^', 0x7f, '.', 'A', 0xe9}).Draw(t, "neighbour")
				checkName(t, s[:i]+string([]byte{c})+s[i+1:])
				vk.Class("near-with-range-neighbour")
			}
		case 2: // unicode
			s := rapid.String().Draw(t, "unicode")
			checkName(t, s)
			vk.Class("random-unicode")
		case 3: // helpers
			sub := part.Draw(t, "sub")
			action := ""
			if rapid.Bool().Draw(t, "hasAction") {
				action = part.Draw(t, "action")
			}
			which := rapid.IntRange(0, 2).Draw(t, "helper")
			main := []string{"app", "biz", "rpc"}[which]
			// a sub type may itself have two segments, and may begin with the helper's own main type
			// ("rpc_gateway" under RegisterRPCTag): the built name is _<main>_<sub>[_<action>] as given
			switch rapid.IntRange(0, 8).Draw(t, "subShape") {
			case 0:
				sub = main + "_" + sub
			case 1:
				sub = sub + "_" + part.Draw(t, "sub2")
			case 2:
				sub = main
			case 3:
				// parts made of legal characters whose underscores are misplaced or too many: what
				// the helper builds is a name like any other and has to pass as one
				sub = rapid.SampledFrom([]string{"order__pay", "user_", "_user", "a_b_c_d", "a_b_c", "x__y", "_", "a_b_", "_a_b"}).Draw(t, "oddSub")
			case 4:
				if action != "" {
					action = rapid.SampledFrom([]string{"do_get", "start_", "_start", "a__b", "a_b_c", "_"}).Draw(t, "oddAction")
				}
			case 5:
				// a sub type of three segments: with no action the built name has four, which is a name
				sub = sub + "_" + part.Draw(t, "sub2") + "_" + part.Draw(t, "sub3")
				if rapid.Bool().Draw(t, "noAction") {
					action = ""
				}
			}
			// aim at the length boundary: built names of exactly 36, 35 and 34 characters
			if target := rapid.SampledFrom([]int{36, 0, 35, 34, 0}).Draw(t, "targetLen"); target > 0 {
				room := target - len("_"+main+"_") // characters left for sub[_action]
				if action != "" {
					al := rapid.IntRange(1, room-2).Draw(t, "actionLen")
					action = strings.Repeat("k", al)
					room -= al + 1
				}
				sub = strings.Repeat("s", room-1) + "9"
			}
			want := "_" + main + "_" + sub
			if action != "" {
				want += "_" + action
			}
			if len(want) > 36 {
				return
			}
			initModel()
			if !specAccepts(want) {
				// too many segments for a tag name: the helper must refuse it like RegisterTag does
				p := vk.Catch(func() {
					switch which {
					case 0:
						log.RegisterAppTag(sub, action)
					case 1:
						log.RegisterBizTag(sub, action)
					default:
						log.RegisterRPCTag(sub, action)
					}
				})
				if p == nil {
					failCase(t, want, fmt.Sprintf("helper %s(%q,%q) accepted parts that build the ill-formed name", main, sub, action))
				}
				if slices.Contains(log.GetAllTags(), want) {
					failCase(t, want, "a refused helper call registered something")
				}
				vk.Class("helpers-refused")
				return
			}
			var tag *log.Tag
			p := vk.Catch(func() {
				switch which {
				case 0:
					tag = log.RegisterAppTag(sub, action)
				case 1:
					tag = log.RegisterBizTag(sub, action)
				default:
					tag = log.RegisterRPCTag(sub, action)
				}
			})
			if p != nil || tag == nil {
				failCase(t, want, fmt.Sprintf("helper %s(%q,%q) rejected a name built from valid parts: %v", main, sub, action, p))
			}
			modelSet[want] = true
			if prev, ok := model[want]; ok && prev != tag {
				failCase(t, want, "helper returned a different tag for an already registered name")
			}
			model[want] = tag
			if again := log.RegisterTag(want); again != tag {
				failCase(t, want, "helper-built tag is not the tag registered under the documented name _<main>_<sub>[_<action>]")
			}
			if !slices.Contains(log.GetAllTags(), want) {
				failCase(t, want, "GetAllTags lacks the helper-built name")
			}
			vk.Class("helpers")
			vk.NonTrivial("h:" + want)
		}
		vk.Eval()
	})
	checkRegistry(t, "after random")
}

// TestC18_Lifecycle: the registry is idempotent across the configuration life cycle too. rapid
// draws a history over {register an accepted name (new or seen), register a rejected name,
// Refresh with a valid configuration, Refresh with an invalid one, Destroy}. Registration is an
// initialisation-time operation (the library refuses it between a Refresh and the next Destroy;
// that refusal is property C16's business), so names are registered only while no Refresh is
// outstanding; whenever that is the case, each name registered earlier still yields the tag object
// handed out first, and at generated points the list of all tags is exactly the set of names
// registered - whatever Refresh/Destroy cycles lie in between.
// (Runs last: the other tests of this package need a process that has not been configured.)
func TestC18_Lifecycle(t *testing.T) {
	if vk.ReplayCase() != "" {
		t.Skip()
	}
	initModel()
	seg := rapid.StringMatching(`[a-z0-9]{1,4}`)
	rapid.Check(t, func(t *rapid.T) {
		var mine []string // names this history registered, in order
		var ops []string
		locked := false // a Refresh (successful or not) since the last Destroy
		cycles := 0
		log.Destroy()
		t.Repeat(map[string]func(*rapid.T){
			"register": func(t *rapid.T) {
				if locked {
					t.Skip("registration is refused until Destroy")
				}
				var name string
				if len(mine) > 0 && rapid.IntRange(0, 2).Draw(t, "again") == 0 {
					name = rapid.SampledFrom(mine).Draw(t, "seen")
				} else {
					name = "c18l" + strings.Join(rapid.SliceOfN(seg, 1, 3).Draw(t, "segs"), "_")
					if rapid.Bool().Draw(t, "lead") {
						name = "_" + name
					}
				}
				ops = append(ops, "register "+name)
				vk.Eval()
				if checkName(t, name) {
					mine = append(mine, name)
					if cycles > 0 {
						vk.NonTrivial(strings.Join(ops, ";"))
					}
				}
			},
			"registerBad": func(t *rapid.T) {
				if locked {
					t.Skip("registration is refused until Destroy")
				}
				name := rapid.SampledFrom([]string{"c18l__x", "C18l_x", "c18l_a_b_c_d_e", "c18l_", "__c18l", "c18l-x"}).Draw(t, "bad")
				ops = append(ops, "register "+name)
				vk.Eval()
				checkName(t, name)
			},
			"refreshValid": func(t *rapid.T) {
				ops = append(ops, "refresh-valid")
				// the configuration may name tags nobody registered (they are simply unused), also strings
				// that are not tag names at all: configuring does not register
				listed := rapid.SampledFrom([]string{"", "c18l_never_registered", "Not-A-Tag", "c18l_a,c18l_b_*, _c18l_zz", "_c18l_cfg_only_*"}).Draw(t, "listedTags")
				m := map[string]string{"appender.d.type": "Discard"}
				if listed != "" {
					m["logger.lt.type"], m["logger.lt.tags"], m["logger.lt.appenderRef.ref"] = "Logger", listed, "d"
				}
				if err := log.Refresh(m); err == nil && listed != "" {
					ops[len(ops)-1] += "(tags=" + listed + ")"
				}
				locked = true
			},
			"refreshInvalidEarly": func(t *rapid.T) {
				// rejected before anything is built (no appenders section / nothing at all): such a call
				// changes nothing - in particular registration stays possible if it was
				ops = append(ops, "refresh-invalid-early")
				m := map[string]string{"logger.lt.type": "Logger"}
				if rapid.Bool().Draw(t, "emptyConfig") {
					m = map[string]string{}
				}
				if err := log.Refresh(m); err == nil {
					failCase(t, "", "Refresh accepted a configuration without appenders")
				}
			},
			"refreshInvalidLate": func(t *rapid.T) {
				ops = append(ops, "refresh-invalid-late")
				_ = log.Refresh(map[string]string{"appender.d.type": "Discard", "logger.lt.type": "Logger", "logger.lt.tags": "_c18l_x", "logger.lt.appenderRef.ref": "ghost"})
				locked = true
			},
			"registerWhileLocked": func(t *rapid.T) {
				if !locked {
					t.Skip("only between a Refresh and the next Destroy")
				}
				// refused (that is property C16's business) - and a refused registration registers nothing
				name := "c18lk" + strings.Join(rapid.SliceOfN(seg, 1, 2).Draw(t, "lsegs"), "_")
				ops = append(ops, "register-while-locked "+name)
				_ = vk.Catch(func() { log.RegisterTag(name) })
				if _, ok := model[name]; !ok {
					checkRegistry(t, "after the history ["+strings.Join(ops, "; ")+"]")
				}
			},
			"destroy": func(t *rapid.T) {
				ops = append(ops, "destroy")
				log.Destroy()
				if locked {
					cycles++
				}
				locked = false
			},
			"": func(t *rapid.T) {
				if !locked {
					for _, n := range mine {
						var again *log.Tag
						if p := vk.Catch(func() { again = log.RegisterTag(n) }); p != nil || again != model[n] {
							failCase(t, n, fmt.Sprintf("after the history [%s] registering an accepted name again: panic=%v, same tag as first handed out=%v", strings.Join(ops, "; "), p, again == model[n]))
						}
					}
				}
				if len(ops)%5 == 0 {
					checkRegistry(t, "after the history ["+strings.Join(ops, "; ")+"]")
				}
			},
		})
		log.Destroy()
		checkRegistry(t, "after the history ["+strings.Join(ops, "; ")+"] and Destroy")
	})
}
