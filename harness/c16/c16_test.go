// C16 - logging never panics in any lifecycle state; the Refresh/Destroy cycle is sane.
//
// rapid state machine (and bounded-exhaustive short sequences) over Refresh(valid A/B),
// Refresh(invalid early/late), Destroy, logging through a tag, writing through a handle,
// registering tags and obtaining handles. Model: unconfigured / live(A|B) / failed-live.
package c16

import (
	"context"
	"fmt"
	"slices"
	"strconv"
	"strings"
	"testing"
	"time"

	"github.com/go-spring/log"
	"pgregory.net/rapid"

	"verifharness/vk"
)

const rule = "operation sequences (generated up to length 8 with a tail up to 16; exhaustive up to length 3 quick / 5 thorough) over {Refresh(valid A sync), Refresh(valid B async), Refresh(invalid early), Refresh(invalid late x3), Destroy, log via tag at a drawn level, write via handle, RegisterTag(new|existing), GetLogger(existing|new from pool)}; non-trivial = a Destroy followed by logging or another Refresh, or a failed Refresh followed by anything; distinct by the op sequence"

var (
	t1      = log.RegisterTag("_c16_t1")
	tRoot   = log.RegisterTag("_c16r_unlisted") // no logger lists it: served by root (configured in B, built-in in A)
	handles = map[string]*log.LoggerWrapper{"h1": log.GetLogger("h1")}
	tags    = map[string]*log.Tag{"_c16_t1": t1}
	console = &vk.Capture{}
)

var tagPool = []string{"_c16_n1", "_c16_n2", "_c16_n3", "_c16_n4", "_c16_n5", "_c16_n6"}

// "root" is a legal handle name too: with no root logger configured it stands for the built-in one
var handlePool = []string{"h1", "h2", "root", "h3"}

var opNames = []string{"RefreshA", "RefreshB", "RefreshInvalidEarly", "RefreshInvalidLate", "Destroy", "LogTag", "WriteHandle", "RegisterTagNew", "RegisterTagExisting", "GetLoggerExisting", "GetLoggerNew"}

type op struct {
	K     string
	Level int // LogTag: index into lvls
	Var   int // variant for invalid configs
}

func (o op) String() string {
	if o.K == "LogTag" {
		return "LogTag@" + lvls[o.Level].Name()
	}
	if strings.HasPrefix(o.K, "RefreshInvalid") {
		return fmt.Sprintf("%s#%d", o.K, o.Var)
	}
	return o.K
}

var lvls = []log.Level{log.TraceLevel, log.DebugLevel, log.InfoLevel, log.WarnLevel, log.ErrorLevel, log.PanicLevel, log.FatalLevel}

// valid configurations configure every handle name of the pool (whether requested yet or not)
func validCfg(kind string) map[string]string {
	// A and B differ in their global properties too: a second Refresh that is rejected must not
	// leak its property values into the live configuration
	m := map[string]string{"enableCaller": "true", "fastCaller": "false", "bufferCap": "10KB", "appender.rtag.type": "Rec"}
	typ := "Logger"
	if kind == "B" {
		typ = "AsyncLogger"
		m["enableCaller"] = "false"
		m["bufferCap"] = "1KB"
	}
	set := func(name, tags, level, rec string) {
		m["appender."+rec+".type"] = "Rec"
		m["logger."+name+".type"] = typ
		m["logger."+name+".tags"] = tags
		m["logger."+name+".level"] = level
		m["logger."+name+".appenderRef.ref"] = rec
		if typ == "AsyncLogger" {
			m["logger."+name+".bufferFullPolicy"] = "Block"
			m["logger."+name+".bufferSize"] = "100"
		}
	}
	level := ""
	if kind == "B" {
		level = "INFO"
	}
	if kind == "B" {
		// the configured root is asynchronous too (it is stopped once, like every other logger)
		m["appender.rroot.type"] = "Rec"
		m["logger.root.type"], m["logger.root.appenderRef.ref"] = "AsyncLogger", "rroot"
		m["logger.root.bufferFullPolicy"], m["logger.root.bufferSize"] = "Block", "100"
	}
	set("lt", "_c16_*", level, "rtag")
	for _, h := range handlePool {
		if h != "root" { // the valid configurations configure no root logger
			set(h, "_c16h_"+h, "", "r"+h)
		}
	}
	return m
}

func invalidEarly(v int) map[string]string {
	switch v % 3 {
	case 0:
		return map[string]string{"logger.lt.type": "Logger"} // no appenders section
	case 1:
		return map[string]string{"appender.a!": "Rec{", "logger.lt.type": "Logger"} // bad inline expression
	default:
		return map[string]string{}
	}
}

func invalidLate(v int) map[string]string {
	m := validCfg("B")
	switch v % 5 {
	case 3:
		// a rolling-file logger in asynchronous mode whose directory does not exist: its own Start fails
		m["logger.zroll.type"], m["logger.zroll.tags"], m["logger.zroll.fileDir"], m["logger.zroll.fileName"] = "RollingFile", "_c16z_a", "/nonexistent/c16/dir", "z.log"
		m["logger.zroll.async"], m["logger.zroll.rotation"] = "true", "h"
	case 4:
		// a file appender whose directory does not exist: an I/O failure while starting
		m["appender.zfile.type"], m["appender.zfile.fileDir"], m["appender.zfile.fileName"] = "File", "/nonexistent/c16/dir", "z.log"
	case 0:
		m["logger.lt.bufferSize"] = "10" // async logger refuses to start
	case 1:
		m["enableCaller"] = "not-a-bool" // property injection fails after everything was started and bound
	default:
		for k := range m { // a requested handle name is not configured
			if strings.HasPrefix(k, "logger.h1.") {
				delete(m, k)
			}
		}
	}
	return m
}

type world struct {
	state      string // unconfigured | liveA | liveB | failed
	registered map[string]bool
	requested  map[string]bool
	lastTag    string // the pool tag registered most recently ("" = none yet)
	lastHandle string // the pool handle requested most recently ("" = none yet)
}

const callLimit = 10 * time.Second

// do runs an API call under the "neither panics nor blocks" watchdog.
func do(f func()) (panicked any, blocked bool) {
	done, p := vk.Within(callLimit, f)
	return p, !done
}

func recLen(name string) int {
	if r := vk.Rec(name); r != nil {
		return r.Len()
	}
	return 0
}

func totalRecs() int {
	n := 0
	for _, r := range vk.AllRecs() {
		n += r.Len()
	}
	return n
}

// waitLimit: how long a delivery may take. Once a wait has failed in this process the verdict is a
// violation anyway; the runs that follow only minimise the sequence and wait a tenth as long (a
// shrink attempt that fails costs one full wait).
var waitLimit = 5 * time.Second

func waitFor(cond func() bool) bool {
	deadline := time.Now().Add(waitLimit)
	for time.Now().Before(deadline) {
		if cond() {
			return true
		}
		time.Sleep(100 * time.Microsecond)
	}
	if cond() {
		return true
	}
	waitLimit = 500 * time.Millisecond
	return false
}

// runSeq executes ops against the library and the model; returns a violation message or "".
func runSeq(ops []op, w *world) (msg string, hang bool) {
	log.Destroy()
	vk.ResetRecs()
	console.Reset()
	log.Stdout = console
	w.state = "unconfigured"
	var hist []string
	fail := func(format string, a ...any) string {
		return fmt.Sprintf(format, a...) + "\nsequence: " + strings.Join(hist, " ") + "  [state before the last op: " + w.state + "]"
	}
	for i, o := range ops {
		hist = append(hist, o.String())
		switch o.K {
		case "RefreshA", "RefreshB":
			var err error
			p, blocked := do(func() { err = log.Refresh(validCfg(o.K[7:])) })
			if blocked {
				return fail("Refresh did not return"), true
			}
			if p != nil {
				return fail("Refresh panicked: %v", p), false
			}
			switch w.state {
			case "unconfigured":
				if err != nil {
					return fail("Refresh with a valid configuration failed in the unconfigured state: %s", firstLine(err)), false
				}
				vk.ResetRecsKeepLive()
				w.state = "live" + o.K[7:]
			case "liveA", "liveB":
				if err == nil {
					return fail("a second Refresh without an intervening Destroy was accepted"), false
				}
			}
		case "RefreshInvalidEarly", "RefreshInvalidLate":
			var err error
			cfg := invalidEarly(o.Var)
			if o.K == "RefreshInvalidLate" {
				cfg = invalidLate(o.Var)
			}
			p, blocked := do(func() { err = log.Refresh(cfg) })
			if blocked {
				return fail("Refresh did not return"), true
			}
			if p != nil {
				return fail("Refresh panicked on an invalid configuration: %v", p), false
			}
			if err == nil && w.state != "failed" {
				return fail("Refresh accepted an invalid configuration"), false
			}
			if w.state == "unconfigured" && o.K == "RefreshInvalidLate" {
				w.state = "failed"
			}
		case "Destroy":
			p, blocked := do(log.Destroy)
			if blocked {
				return fail("Destroy did not return"), true
			}
			if p != nil {
				return fail("Destroy panicked: %v", p), false
			}
			p, blocked = do(log.Destroy) // idempotent
			if blocked || p != nil {
				return fail("a second Destroy panicked or blocked: %v", p), blocked
			}
			w.state = "unconfigured"
		case "LogTag", "WriteHandle":
			id := int64(1000 + i)
			before := totalRecs()
			conBefore := console.Len()
			var p any
			var blocked bool
			target := "rtag"
			enabled := true
			emptyFirst := false
			if o.K == "LogTag" {
				lv := lvls[o.Level]
				// which tag: the one of package init that a wildcard serves, one that only root serves,
				// or the one registered most recently in this process (bound by the next Refresh)
				tg := t1
				switch {
				case o.Var%3 == 1:
					tg, target = tRoot, "rroot"
					if w.state == "liveA" {
						target = "console" // no root logger configured: the built-in one
					}
				case o.Var%3 == 2 && w.lastTag != "":
					tg = tags[w.lastTag]
				}
				if w.state == "liveB" && lv.Code() < log.InfoLevel.Code() && tg != tRoot {
					enabled = false
				}
				p, blocked = do(func() { log.Record(context.Background(), lv, tg, 1, log.Int("id", id)) })
			} else {
				hn := "h1"
				if o.Var%2 == 1 && w.lastHandle != "" {
					hn = w.lastHandle
				}
				target = "r" + hn
				if hn == "root" && w.state == "liveA" {
					target = "console"
				}
				// a third of the writes come after an empty one through the same handle (nil or zero
				// length: legal io.Writer calls) - it neither panics nor blocks, and the write after it
				// is served like any other
				if e := o.Level % 3; e > 0 {
					emptyFirst = true
					payload := []byte(nil)
					if e == 2 {
						payload = []byte{}
					}
					if p0, b0 := do(func() { _, _ = handles[hn].Write(payload) }); b0 || p0 != nil {
						return fail("%s: an empty write (%#v) through handle %s panicked or blocked: %v", o, payload, hn, p0), b0
					}
				}
				p, blocked = do(func() { _, _ = handles[hn].Write([]byte(fmt.Sprintf("id=%d\n", id))) })
			}
			if blocked {
				return fail("%s blocked", o), true
			}
			if p != nil {
				return fail("%s panicked: %v", o, p), false
			}
			switch w.state {
			case "unconfigured":
				// with no live configuration it goes to the built-in console logger
				if !strings.Contains(string(console.Bytes()[conBefore:]), fmt.Sprintf("id=%d", id)) {
					return fail("%s with no live configuration did not reach the console stream (console got %q)", o, console.Bytes()[conBefore:]), false
				}
				if totalRecs() != before {
					return fail("%s with no live configuration reached an appender of a destroyed/never configured logger", o), false
				}
			case "liveA", "liveB":
				if !enabled {
					time.Sleep(time.Millisecond)
					if totalRecs() != before || console.Len() != conBefore {
						return fail("%s below the serving logger's level was emitted", o), false
					}
					break
				}
				if target == "console" {
					// served by the built-in console logger although a configuration is live
					if !waitFor(func() bool { return strings.Contains(string(console.Bytes()[conBefore:]), fmt.Sprintf("id=%d", id)) }) {
						return fail("%s is served by the built-in root logger under this configuration but did not reach the console stream (console got %q)", o, console.Bytes()[conBefore:]), false
					}
					if totalRecs() != before {
						return fail("%s is served by the built-in root logger under this configuration but reached a configured appender", o), false
					}
					break
				}
				n0 := before
				if !waitFor(func() bool { return totalRecs() > n0 }) {
					return fail("%s under a live configuration was not delivered to any appender", o), false
				}
				if emptyFirst {
					// the empty write may have been recorded as an item of its own: wait for the judged one
					if !waitFor(func() bool {
						r := vk.Rec(target)
						return r != nil && r.Len() > 0 && r.Items()[r.Len()-1].ID == id
					}) {
						return fail("%s (after an empty write through the same handle) under a live configuration was not routed to appender %s as configured", o, target), false
					}
				}
				r := vk.Rec(target)
				if r == nil || r.Len() == 0 || r.Items()[r.Len()-1].ID != id {
					return fail("%s under a live configuration was not routed to appender %s as configured", o, target), false
				}
				if console.Len() != conBefore {
					return fail("%s under a live configuration also wrote to the console stream", o), false
				}
				if o.K == "LogTag" {
					it := r.Items()[r.Len()-1]
					wantCaller := w.state == "liveA"
					if (it.File != "") != wantCaller {
						return fail("%s: the live configuration has enableCaller=%v but the record carries file %q (a rejected Refresh or a failed one must not change the live configuration's properties)", o, wantCaller, it.File), false
					}
				}
			}
		case "RegisterTagNew", "RegisterTagExisting":
			name := "_c16_t1"
			if o.K == "RegisterTagNew" {
				name = tagPool[len(tagPool)-1]
				for _, n := range tagPool {
					if !w.registered[n] {
						name = n
						break
					}
				}
			}
			// the entry point: RegisterTag, or one of the typed helpers that build the name
			register := func() *log.Tag { return log.RegisterTag(name) }
			if e := (o.Var + o.Level) % 4; e > 0 {
				main := []string{"", "app", "biz", "rpc"}[e]
				sub := "def"
				if o.K == "RegisterTagNew" {
					sub = "c16x" + strconv.Itoa(len(tagPool))
					for i := range tagPool {
						if !w.registered["_"+main+"_c16x"+strconv.Itoa(i+1)] {
							sub = "c16x" + strconv.Itoa(i+1)
							break
						}
					}
				}
				name = "_" + main + "_" + sub
				register = func() *log.Tag {
					switch main {
					case "app":
						return log.RegisterAppTag(sub, "")
					case "biz":
						return log.RegisterBizTag(sub, "")
					}
					return log.RegisterRPCTag(sub, "")
				}
			}
			all := log.GetAllTags()
			var tg *log.Tag
			p, blocked := do(func() { tg = register() })
			if blocked {
				return fail("RegisterTag blocked"), true
			}
			switch w.state {
			case "liveA", "liveB":
				if p == nil {
					return fail("RegisterTag(%q) was not refused while a configuration is live", name), false
				}
				if !slices.Equal(all, log.GetAllTags()) {
					return fail("a refused RegisterTag(%q) changed the tag registry", name), false
				}
			case "unconfigured":
				if p != nil {
					return fail("RegisterTag(%q) panicked although no configuration is live: %v", name, p), false
				}
				if prev, ok := tags[name]; ok && prev != tg {
					return fail("RegisterTag(%q) returned a different tag than before", name), false
				}
				tags[name] = tg
				w.registered[name] = true
				if slices.Contains(tagPool, name) {
					w.lastTag = name
				}
			}
		case "GetLoggerExisting", "GetLoggerNew":
			name := "h1"
			if o.K == "GetLoggerNew" {
				name = handlePool[len(handlePool)-1]
				for _, n := range handlePool {
					if !w.requested[n] {
						name = n
						break
					}
				}
			}
			var h *log.LoggerWrapper
			p, blocked := do(func() { h = log.GetLogger(name) })
			if blocked {
				return fail("GetLogger blocked"), true
			}
			switch w.state {
			case "liveA", "liveB":
				if p == nil {
					return fail("GetLogger(%q) was not refused while a configuration is live", name), false
				}
			case "unconfigured":
				if p != nil {
					return fail("GetLogger(%q) panicked although no configuration is live: %v", name, p), false
				}
				if prev, ok := handles[name]; ok && prev != h {
					return fail("GetLogger(%q) returned a different handle than before", name), false
				}
				handles[name] = h
				w.requested[name] = true
				if name != "h1" {
					w.lastHandle = name
				}
			}
		}
	}
	// after any history: Destroy, then a valid configuration must succeed and route as configured
	hist = append(hist, "| Destroy RefreshA LogTag WriteHandle Destroy")
	if p, blocked := do(log.Destroy); p != nil || blocked {
		return fail("final Destroy panicked or blocked: %v", p), blocked
	}
	w.state = "unconfigured"
	vk.ResetRecs()
	var err error
	if p, blocked := do(func() { err = log.Refresh(validCfg("A")) }); p != nil || blocked || err != nil {
		return fail("after Destroy a Refresh with a valid configuration failed: panic=%v blocked=%v err=%s", p, blocked, firstLine(err)), blocked
	}
	w.state = "liveA"
	p, blocked := do(func() {
		log.Info(context.Background(), t1, log.Int("id", 77))
		_, _ = handles["h1"].Write([]byte("id=78\n"))
	})
	if p != nil || blocked {
		return fail("logging after re-configuration panicked or blocked: %v", p), blocked
	}
	if recLen("rtag") != 1 || recLen("rh1") != 1 {
		return fail("after Destroy + Refresh(valid) the tag/handle were not routed as configured (rtag=%d rh1=%d)", recLen("rtag"), recLen("rh1")), false
	}
	if p, blocked := do(log.Destroy); p != nil || blocked {
		return fail("Destroy of the re-configured system panicked or blocked: %v", p), blocked
	}
	return "", false
}

func firstLine(err error) string {
	if err == nil {
		return "<nil>"
	}
	s := err.Error()
	if i := strings.IndexByte(s, '\n'); i >= 0 {
		s = s[:i]
	}
	return s
}

func nonTrivial(ops []op) bool {
	for i, o := range ops {
		if i+1 < len(ops) && (o.K == "Destroy" && (ops[i+1].K == "LogTag" || ops[i+1].K == "WriteHandle" || strings.HasPrefix(ops[i+1].K, "Refresh")) || strings.HasPrefix(o.K, "RefreshInvalid")) {
			return true
		}
	}
	return false
}

var theWorld = &world{registered: map[string]bool{"_c16_t1": true}, requested: map[string]bool{"h1": true}}

func seqString(ops []op) string {
	var s []string
	for _, o := range ops {
		s = append(s, o.String())
	}
	return strings.Join(s, " ")
}

func TestC16_Generated(t *testing.T) {
	vk.Rule(rule)
	rapid.Check(t, func(t *rapid.T) {
		n := rapid.IntRange(1, 8).Draw(t, "len")
		if rapid.IntRange(0, 9).Draw(t, "long") == 0 {
			n = rapid.IntRange(9, 16).Draw(t, "lenLong")
		}
		var ops []op
		for i := 0; i < n; i++ {
			ops = append(ops, op{K: rapid.SampledFrom(opNames).Draw(t, "op"), Level: rapid.IntRange(0, len(lvls)-1).Draw(t, "lvl"), Var: rapid.IntRange(0, 4).Draw(t, "var")})
		}
		vk.Eval()
		if nonTrivial(ops) {
			vk.NonTrivial(seqString(ops))
		}
		vk.Sample(map[string]any{"sequence": seqString(ops)})
		msg, hang := runSeq(ops, theWorld)
		if hang {
			vk.HardFail("c16-hang", map[string]any{"sequence": seqString(ops)}, "C16: %s", msg)
		}
		if msg != "" {
			t.Fatalf("VERIF-VIOLATION C16: %s", msg)
		}
	})
	log.Destroy()
}

// TestC16_Exhaustive: every sequence up to length L over the operation alphabet.
func TestC16_Exhaustive(t *testing.T) {
	vk.Rule(rule)
	L := 3
	if vk.Thorough() {
		L = 5
	}
	shard, shards := vk.Shard()
	k := len(opNames)
	var total, nt int64
	idx := 0
	for n := 1; n <= L; n++ {
		cnt := 1
		for i := 0; i < n; i++ {
			cnt *= k
		}
		for code := 0; code < cnt; code++ {
			idx++
			if idx%shards != shard {
				continue
			}
			var ops []op
			c := code
			for i := 0; i < n; i++ {
				ops = append(ops, op{K: opNames[c%k], Level: (code + i) % len(lvls), Var: (code / 7) % 5})
				c /= k
			}
			total++
			if nonTrivial(ops) {
				nt++
			}
			msg, hang := runSeq(ops, theWorld)
			if hang {
				vk.HardFail("c16-hang", map[string]any{"sequence": seqString(ops)}, "C16: %s", msg)
			}
			if msg != "" {
				p := vk.SaveCase("c16", map[string]any{"sequence": seqString(ops), "error": msg})
				t.Fatalf("VERIF-VIOLATION C16 (exhaustive): %s (case %s)", msg, p)
			}
		}
	}
	// Longer histories with a fixed beginning: a configuration that was live (and destroyed, or
	// not), or a Refresh that failed late in each of its variants, followed by every sequence of
	// length <= L-1. The state a short sequence cannot build up - "had a live configuration
	// once" - is where stale bindings live.
	var prefixes [][]op
	for _, c := range []string{"RefreshA", "RefreshB"} {
		prefixes = append(prefixes, []op{{K: c}, {K: "Destroy"}}, []op{{K: c}, {K: "LogTag", Level: 2}, {K: "Destroy"}})
	}
	for v := 0; v < 5; v++ {
		prefixes = append(prefixes, []op{{K: "RefreshB"}, {K: "Destroy"}, {K: "RefreshInvalidLate", Var: v}})
		prefixes = append(prefixes, []op{{K: "RefreshInvalidLate", Var: v}})
	}
	for pi, pre := range prefixes {
		for n := 1; n <= L-1; n++ {
			cnt := 1
			for i := 0; i < n; i++ {
				cnt *= k
			}
			for code := 0; code < cnt; code++ {
				idx++
				if idx%shards != shard {
					continue
				}
				ops := append([]op{}, pre...)
				c := code
				for i := 0; i < n; i++ {
					ops = append(ops, op{K: opNames[c%k], Level: (code + i) % len(lvls), Var: (code/7 + pi) % 5})
					c /= k
				}
				total++
				nt++
				msg, hang := runSeq(ops, theWorld)
				if hang {
					vk.HardFail("c16-hang", map[string]any{"sequence": seqString(ops)}, "C16: %s", msg)
				}
				if msg != "" {
					p := vk.SaveCase("c16", map[string]any{"sequence": seqString(ops), "error": msg})
					t.Fatalf("VERIF-VIOLATION C16 (exhaustive): %s (case %s)", msg, p)
				}
			}
		}
	}
	space := fmt.Sprintf("all operation sequences of length <= %d over %d operations, and every sequence of length <= %d after each of %d fixed beginnings", L, k, L-1, len(prefixes))
	vk.EvalN(total)
	vk.NonTrivialBulk(space, nt)
	vk.Exhaustive(space, true)
	vk.Sample(map[string]any{"space": space, "sequences": total})
	log.Destroy()
}

// TestRegress_C16: shrunk failures found before the fix: commits.
func TestRegress_C16(t *testing.T) {
	for _, ops := range [][]op{
		{{K: "WriteHandle"}}, // handle before any Refresh: nil logger
		{{K: "RefreshA"}, {K: "Destroy"}, {K: "LogTag", Level: 0}}, // tag still bound to the destroyed sync logger
		{{K: "RefreshB"}, {K: "Destroy"}, {K: "LogTag", Level: 5}}, // async: send on closed channel
		{{K: "RefreshB"}, {K: "Destroy"}, {K: "WriteHandle"}},
		{{K: "RefreshInvalidLate", Var: 1}, {K: "Destroy"}, {K: "LogTag", Level: 2}, {K: "WriteHandle"}},
	} {
		vk.Eval()
		if msg, _ := runSeq(ops, theWorld); msg != "" {
			t.Fatalf("VERIF-VIOLATION C16 regress: %s", msg)
		}
	}
}
