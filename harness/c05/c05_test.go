// C05 - Stop/Destroy terminates and flushes everything accepted before it; no descriptor leaks.
//
// The harness owns the worker's state at the moment of the call (idle and drained, parked inside a
// gated appender that is opened a generated delay after Stop was issued, or slowed per item) and
// the buffer occupancy; sinks are read back *immediately* when the call returns, and
// /proc/self/fd is scanned for links into the case's log directory.
package c05

import (
	"bytes"
	"context"
	"fmt"
	"os"
	"path/filepath"
	"runtime/debug"
	"sort"
	"strconv"
	"strings"
	"sync"
	"sync/atomic"
	"testing"
	"time"

	"github.com/go-spring/log"
	"pgregory.net/rapid"

	"verifharness/vk"
)

const rule = "logger kind (direct AsyncLogger, Refresh-built AsyncLogger / Logger / File / Console / RollingFile sync+async) x policy x buffer occupancy 0..capacity at the call x worker state (idle-drained, parked in a gate opened 0-50 ms after Stop was issued, slowed per item) x sinks (recorder, file, rolling file, console) x Stop vs Destroy x appender Stop once/twice; plus real-time runs of a rolling appender over >=3 one-second boundaries; non-trivial = occupancy > 0 or worker not idle at the call, or a rotation happened before it; distinct by drawn parameters"

func init() {
	log.RegisterTimeRotation("1s", log.TimeRotation{Interval: time.Second})
}

var (
	tagMain  = log.RegisterTag("_c05_main")
	tagOther = log.RegisterTag("_c05_other")
	handle   = log.GetLogger("c05h")
	// "root" is a handle name like any other: the configured root logger, or the built-in one
	rootHandle = log.GetLogger("root")
	console    = &vk.Capture{}
)

// fdsInto returns the open descriptors of this process that point into dir.
func fdsInto(dir string) []string {
	ents, err := os.ReadDir("/proc/self/fd")
	if err != nil {
		return nil
	}
	var out []string
	for _, e := range ents {
		l, err := os.Readlink("/proc/self/fd/" + e.Name())
		if err == nil && strings.HasPrefix(l, dir+"/") {
			out = append(out, l)
		}
	}
	sort.Strings(out)
	return out
}

// TestC05_FailedRefresh: Destroy after a Refresh that failed late - after it had started loggers and
// appenders (a property value rejected at the end, a logger that refuses to start, a requested
// handle name that is not configured). Whatever was accepted by anything that Refresh left running
// has been handed over when Destroy returns (nothing trickles in afterwards), every event is on the
// console stream or in the recorder exactly once, and no descriptor stays open.
func TestC05_FailedRefresh(t *testing.T) {
	vk.Rule(rule)
	base := vk.Scratch("c05f")
	n := 0
	rapid.Check(t, func(t *rapid.T) {
		n++
		dir := filepath.Join(base, strconv.Itoa(n))
		_ = os.MkdirAll(dir, 0o755)
		defer os.RemoveAll(dir)
		log.Destroy()
		vk.ResetRecs()
		console.Reset()
		log.Stdout = console
		async := rapid.Bool().Draw(t, "async")
		fault := rapid.SampledFrom([]string{"bad-property", "bad-property", "logger-start-fails", "handle-not-configured"}).Draw(t, "fault")
		events := rapid.IntRange(1, 90).Draw(t, "events")
		delayUS := rapid.SampledFrom([]int{0, 200, 2000}).Draw(t, "appenderDelayUS")
		if delayUS > 0 {
			vk.SetBehavior("rec", &vk.Behavior{Delay: func(int) time.Duration { return time.Duration(delayUS) * time.Microsecond }})
		}
		m := map[string]string{
			"appender.rec.type": "Rec", "appender.f.type": "File", "appender.f.fileDir": dir, "appender.f.fileName": "plain.log",
			"logger.c05h.tags": "_c05_main", "logger.c05h.appenderRef[0].ref": "rec", "logger.c05h.appenderRef[1].ref": "f",
			"logger.other.type": "Logger", "logger.other.tags": "_c05_other", "logger.other.appenderRef.ref": "rec",
		}
		if async {
			m["logger.c05h.type"], m["logger.c05h.bufferFullPolicy"], m["logger.c05h.bufferSize"] = "AsyncLogger", "Block", "100"
		} else {
			m["logger.c05h.type"] = "Logger"
		}
		switch fault {
		case "bad-property":
			m[rapid.SampledFrom([]string{"enableCaller", "fastCaller", "bufferCap"}).Draw(t, "property")] = "not-a-value"
		case "logger-start-fails":
			m["logger.zz.type"], m["logger.zz.tags"], m["logger.zz.appenderRef.ref"] = "AsyncLogger", "_c05_zz", "rec"
			m["logger.zz.bufferSize"] = "7" // below the minimum: Start refuses
		default:
			for k := range m {
				if strings.HasPrefix(k, "logger.c05h.") {
					m["logger.renamed."+strings.TrimPrefix(k, "logger.c05h.")] = m[k]
					delete(m, k)
				}
			}
		}
		var err error
		if p := vk.Catch(func() { err = log.Refresh(m) }); p != nil {
			t.Fatalf("VERIF-VIOLATION C05: Refresh panicked: %v", p)
		}
		vk.Eval()
		vk.Class("failed-refresh:" + fault)
		vk.NonTrivial(fmt.Sprintf("failed-refresh/%s/%v/%d/%d", fault, async, events, delayUS))
		if err == nil {
			log.Destroy()
			t.Fatalf("VERIF-INCONCLUSIVE C05: the faulty configuration (%s) was accepted", fault)
		}
		if done, p := vk.Within(30*time.Second, func() {
			for i := 1; i <= events; i++ {
				if i%3 == 0 {
					_, _ = handle.Write([]byte("id=" + strconv.Itoa(i) + "\n"))
				} else {
					log.Info(context.Background(), tagMain, log.Int("id", i))
				}
			}
		}); !done || p != nil {
			vk.HardFail("c05-hang", map[string]any{"fault": fault}, "C05: logging after a failed Refresh (%s) blocked or panicked: %v", fault, p)
		}
		if done, p := vk.Within(60*time.Second, log.Destroy); !done || p != nil {
			vk.HardFail("c05-hang", map[string]any{"fault": fault}, "C05: Destroy after a failed Refresh (%s) blocked or panicked: %v", fault, p)
		}
		count := func() (rec map[int64]int, con map[int64]int) {
			rec, con = map[int64]int{}, map[int64]int{}
			if r := vk.Rec("rec"); r != nil {
				for _, it := range r.Items() {
					rec[it.ID]++
				}
			}
			for _, id := range idsIn(console.Bytes()) {
				con[id]++
			}
			return
		}
		rec1, con1 := count()
		time.Sleep(time.Duration(50+2*delayUS/1000*events) * time.Millisecond)
		rec2, _ := count()
		if len(rec2) != len(rec1) {
			t.Fatalf("VERIF-VIOLATION C05: after a Refresh that failed (%s), Destroy returned while accepted items were still undelivered: the recording appender held %d items when Destroy returned and %d a moment later", fault, len(rec1), len(rec2))
		}
		for i := 1; i <= events; i++ {
			if rec1[int64(i)]+con1[int64(i)] != 1 {
				t.Fatalf("VERIF-VIOLATION C05: after a Refresh that failed (%s), item id=%d was in the recorder %d times and on the console %d times when Destroy returned (expected exactly once, in one of them)", fault, i, rec1[int64(i)], con1[int64(i)])
			}
		}
		if open := fdsInto(dir); len(open) != 0 {
			t.Fatalf("VERIF-VIOLATION C05: after a Refresh that failed (%s) and Destroy the process still holds descriptors on %v", fault, open)
		}
	})
	log.Destroy()
}

// fdsOn lists the process's descriptors that point at exactly path.
func fdsOn(path string) int {
	ents, err := os.ReadDir("/proc/self/fd")
	if err != nil {
		return 0
	}
	n := 0
	for _, e := range ents {
		if l, err := os.Readlink("/proc/self/fd/" + e.Name()); err == nil && l == path {
			n++
		}
	}
	return n
}

// TestC05_FailingTarget: a file appender whose target refuses every write (/dev/full: ENOSPC, the
// full disk). However many writes fail, the appender holds one descriptor on its file while it
// runs and none after Stop / Destroy. (The collector is switched off meanwhile: a descriptor that
// was merely forgotten would otherwise be closed by a finalizer sooner or later.)
func TestC05_FailingTarget(t *testing.T) {
	vk.Rule(rule)
	if _, err := os.Stat("/dev/full"); err != nil {
		t.Skip("no /dev/full")
	}
	defer debug.SetGCPercent(debug.SetGCPercent(-1))
	rapid.Check(t, func(t *rapid.T) {
		log.Destroy()
		// /dev/full refuses every write (ENOSPC); /dev/null takes every write but cannot be synced
		// (EINVAL): closing a file does not depend on whether flushing it worked
		target := rapid.SampledFrom([]string{"full", "null"}).Draw(t, "target")
		base := fdsOn("/dev/" + target)
		viaRefresh := rapid.Bool().Draw(t, "viaRefresh")
		writes := rapid.IntRange(1, 60).Draw(t, "writes")
		raw := rapid.Bool().Draw(t, "rawWrites")
		var write func(i int)
		var stop func()
		if viaRefresh {
			kind := rapid.SampledFrom([]string{"appender", "filelogger"}).Draw(t, "kind")
			m := map[string]string{"appender.unused.type": "Discard", "logger.c05h.tags": "_c05_main"}
			if kind == "appender" {
				m["appender.f.type"], m["appender.f.fileDir"], m["appender.f.fileName"] = "File", "/dev", target
				m["logger.c05h.type"], m["logger.c05h.appenderRef.ref"] = "Logger", "f"
			} else {
				m["logger.c05h.type"], m["logger.c05h.fileDir"], m["logger.c05h.fileName"] = "File", "/dev", target
			}
			if err := log.Refresh(m); err != nil {
				t.Fatalf("VERIF-INCONCLUSIVE C05: %v", err)
			}
			write = func(i int) {
				if raw {
					_, _ = handle.Write([]byte("id=" + strconv.Itoa(i) + "\n"))
				} else {
					log.Info(context.Background(), tagMain, log.Int("id", i))
				}
			}
			stop = log.Destroy
		} else {
			a := &log.FileAppender{AppenderBase: log.AppenderBase{Name: "f"}, Layout: &log.TextLayout{BaseLayout: log.BaseLayout{FileLineLength: 48}}, FileDir: "/dev", FileName: target}
			if err := a.Start(); err != nil {
				t.Fatalf("VERIF-INCONCLUSIVE C05: %v", err)
			}
			write = func(i int) { a.Write([]byte("id=" + strconv.Itoa(i) + "\n")) }
			stop = a.Stop
		}
		vk.Eval()
		vk.Class("failing-target")
		vk.NonTrivial(fmt.Sprintf("failing-target/%s/%v/%d/%v", target, viaRefresh, writes, raw))
		for i := 0; i < writes; i++ {
			if p := vk.Catch(func() { write(i) }); p != nil {
				stop()
				t.Fatalf("VERIF-VIOLATION C05: a write to the device panicked: %v", p)
			}
			if n := fdsOn("/dev/"+target) - base; n > 1 {
				stop()
				t.Fatalf("VERIF-VIOLATION C05: after %d failed writes the running file appender holds %d descriptors on its file (one is what it needs)", i+1, n)
			}
		}
		stop()
		if n := fdsOn("/dev/"+target) - base; n != 0 {
			t.Fatalf("VERIF-VIOLATION C05: after Stop/Destroy the process still holds %d descriptor(s) on the appender's file", n)
		}
	})
}

func readAll(dir, prefix string) []byte {
	ents, _ := os.ReadDir(dir)
	var names []string
	for _, e := range ents {
		if strings.HasPrefix(e.Name(), prefix) {
			names = append(names, e.Name())
		}
	}
	sort.Strings(names)
	var all []byte
	for _, n := range names {
		b, _ := os.ReadFile(filepath.Join(dir, n))
		all = append(all, b...)
	}
	return all
}

func idsIn(b []byte) []int64 {
	var ids []int64
	for _, ln := range bytes.Split(b, []byte("\n")) {
		if len(ln) == 0 {
			continue
		}
		ids = append(ids, vk.IDFromLine(ln))
	}
	return ids
}

func sameIDs(got, want []int64) string {
	if len(got) != len(want) {
		return fmt.Sprintf("holds %d items, %d were accepted before the call (first missing/extra around index %d)", len(got), len(want), min(len(got), len(want)))
	}
	for i := range want {
		if got[i] != want[i] {
			return fmt.Sprintf("item #%d is id=%d, expected id=%d", i, got[i], want[i])
		}
	}
	return ""
}

// ---------------------------------------------------------------- async logger: occupancy x worker state

type asyncCase struct {
	Direct    bool
	Policy    string
	Size      int
	Occupancy int      // items buffered behind the in-flight one at the call
	Worker    string   // drained | parked | slow
	DelayMS   int      // parked: gate opens this long after Stop was issued
	Sinks     []string // extra sinks next to the recorder: file | rolling | console
	Layout    bool
	Shared    bool // Refresh mode: a second (sync) logger shares the appenders; Destroy stops the system
	TwiceStop bool
	EmptyRaw  bool // every fifth submission is a raw write with an empty payload (nil or zero-length)
	Restart   bool // direct mode: the logger value went through a Start/Stop cycle before
	SameName  bool // Refresh mode: the first file-owning appender has the same name as the logger (separate sections)
	AsRoot    bool // Refresh mode: the logger under test is the configured root logger (its tag is listed by nobody)
}

type asyncPlain asyncCase

func (c asyncCase) String() string { return fmt.Sprintf("%+v", asyncPlain(c)) }

func genAsyncCase(t *rapid.T) asyncCase {
	c := asyncCase{
		Direct:    rapid.Bool().Draw(t, "direct"),
		Policy:    rapid.SampledFrom([]string{"Block", "Discard", "DiscardOldest"}).Draw(t, "policy"),
		Size:      rapid.SampledFrom([]int{100, 128}).Draw(t, "size"),
		Worker:    rapid.SampledFrom([]string{"parked", "parked", "slow", "drained"}).Draw(t, "worker"),
		DelayMS:   rapid.SampledFrom([]int{0, 1, 5, 50}).Draw(t, "delay"),
		Layout:    rapid.SampledFrom([]bool{false, true}).Draw(t, "layout"),
		Shared:    rapid.Bool().Draw(t, "shared"),
		TwiceStop: rapid.Bool().Draw(t, "twice"),
		EmptyRaw:  rapid.Bool().Draw(t, "emptyRaw"),
		SameName:  rapid.Bool().Draw(t, "sameName"),
		AsRoot:    rapid.IntRange(0, 2).Draw(t, "asRoot") == 0,
		Restart:   rapid.IntRange(0, 2).Draw(t, "restart") == 0,
	}
	switch rapid.IntRange(0, 3).Draw(t, "occK") {
	case 0:
		c.Occupancy = c.Size
	case 1:
		c.Occupancy = 0
	case 2:
		c.Occupancy = rapid.IntRange(0, c.Size).Draw(t, "occ")
	default:
		c.Occupancy = c.Size - rapid.IntRange(0, 2).Draw(t, "occNearFull")
	}
	c.Sinks = rapid.SliceOfNDistinct(rapid.SampledFrom([]string{"file", "rolling", "console"}), 0, 3, rapid.ID[string]).Draw(t, "sinks")
	sort.Strings(c.Sinks)
	return c
}

func runAsyncCase(c asyncCase, dir string) error {
	log.Destroy()
	vk.ResetRecs()
	console.Reset()
	log.Stdout = console
	var gate *vk.Behavior
	switch c.Worker {
	case "parked", "drained":
		gate = vk.NewGate()
		vk.SetBehavior("rec", gate)
	case "slow":
		vk.SetBehavior("rec", &vk.Behavior{Delay: func(int) time.Duration { return 100 * time.Microsecond }})
	}
	var (
		submitEv  func(id int64)
		submitRaw func(id int64)
		rawWrite  func(b []byte)
		stop      func()
		stopApps  func(twice bool) any
	)
	if c.Direct {
		rec := &vk.RecAppender{AppenderBase: log.AppenderBase{Name: "rec"}}
		_ = rec.Start()
		all := log.LevelRange{MinLevel: log.NoneLevel, MaxLevel: log.MaxLevel}
		refs := []*log.AppenderRef{{Appender: rec, Level: all}}
		var apps []log.Appender
		text := func() log.Layout { return &log.TextLayout{BaseLayout: log.BaseLayout{FileLineLength: 48}} }
		for _, s := range c.Sinks {
			var a log.Appender
			switch s {
			case "file":
				a = &log.FileAppender{AppenderBase: log.AppenderBase{Name: "f"}, Layout: text(), FileDir: dir, FileName: "plain.log"}
			case "rolling":
				a = &log.RollingFileAppender{AppenderBase: log.AppenderBase{Name: "r"}, Layout: text(), FileDir: dir, FileName: "roll.log", Rotation: log.TimeRotation{Interval: time.Hour}, MaxAge: 100}
			case "console":
				a = &log.ConsoleAppender{AppenderBase: log.AppenderBase{Name: "c"}, Layout: text()}
			}
			if err := a.Start(); err != nil {
				return fmt.Errorf("VERIF-INCONCLUSIVE: appender start: %v", err)
			}
			apps = append(apps, a)
			refs = append(refs, &log.AppenderRef{Appender: a, Level: all})
		}
		pol := map[string]log.BufferFullPolicy{"Block": log.BufferFullPolicyBlock, "Discard": log.BufferFullPolicyDiscard, "DiscardOldest": log.BufferFullPolicyDiscardOldest}[c.Policy]
		l := &log.AsyncLogger{LoggerBase: log.LoggerBase{Name: "d", Level: all}, AppenderRefs: log.AppenderRefs{AppenderRefs: refs}, BufferSize: c.Size, BufferFullPolicy: pol}
		if c.Layout {
			l.Layout = text()
		}
		if err := l.Start(); err != nil {
			return fmt.Errorf("VERIF-INCONCLUSIVE: %v", err)
		}
		if c.Restart {
			// an earlier life of the same logger value (stopped while idle), then started again
			if done, p := vk.Within(20*time.Second, l.Stop); !done || p != nil {
				return fmt.Errorf("VERIF-HANG Stop of an idle logger did not return (panic=%v)", p)
			}
			if err := l.Start(); err != nil {
				return fmt.Errorf("second Start of the same AsyncLogger value failed: %v", err)
			}
		}
		submitEv = func(id int64) {
			e := log.GetEvent()
			e.Level, e.Time, e.Tag, e.Fields = log.InfoLevel, time.Unix(0, 0), "_c05_main", []log.Field{log.Int("id", id)}
			l.Append(e)
		}
		submitRaw = func(id int64) { l.Write([]byte("id=" + strconv.FormatInt(id, 10) + "\n")) }
		rawWrite = l.Write
		stop = l.Stop
		stopApps = func(twice bool) any {
			return vk.Catch(func() {
				for _, a := range apps {
					a.Stop()
					if twice {
						a.Stop()
					}
				}
			})
		}
	} else {
		m := map[string]string{
			"enableCaller": "false", "bufferCap": "10KB",
			"appender.rec.type":              "Rec",
			"logger.c05h.type":               "AsyncLogger",
			"logger.c05h.tags":               "_c05_main",
			"logger.c05h.bufferSize":         strconv.Itoa(c.Size),
			"logger.c05h.bufferFullPolicy":   c.Policy,
			"logger.c05h.appenderRef[0].ref": "rec",
		}
		if c.Layout {
			m["logger.c05h.layout.type"] = "TextLayout"
		}
		names := map[string]string{"file": "f", "rolling": "r", "console": "c"}
		if c.SameName {
			// appenders and loggers live in separate sections: an appender may be called like a logger
			for _, s := range c.Sinks {
				if s != "console" {
					names[s] = "c05h"
					break
				}
			}
		}
		for i, s := range c.Sinks {
			k := fmt.Sprintf("logger.c05h.appenderRef[%d].ref", i+1)
			a := "appender." + names[s] + "."
			switch s {
			case "file":
				m[a+"type"], m[a+"fileDir"], m[a+"fileName"] = "File", dir, "plain.log"
			case "rolling":
				m[a+"type"], m[a+"fileDir"], m[a+"fileName"], m[a+"rotation"], m[a+"maxAge"] = "RollingFile", dir, "roll.log", "h", "100"
			case "console":
				m[a+"type"] = "Console"
			}
			m[k] = names[s]
		}
		if c.Shared {
			m["logger.other.type"], m["logger.other.tags"] = "Logger", "_c05_other"
			m["logger.other.appenderRef[0].ref"] = "rec2"
			m["appender.rec2.type"] = "Rec"
			for i, s := range c.Sinks {
				m[fmt.Sprintf("logger.other.appenderRef[%d].ref", i+1)] = names[s]
			}
		}
		h := handle
		if c.AsRoot {
			// the same logger under the name root: stopped like every other logger, before the appenders
			for k, v := range m {
				if rest, ok := strings.CutPrefix(k, "logger.c05h."); ok {
					delete(m, k)
					if rest != "tags" {
						m["logger.root."+rest] = v
					}
				}
			}
			m["appender.stub.type"] = "Discard"
			m["logger.c05h.type"], m["logger.c05h.tags"], m["logger.c05h.appenderRef.ref"] = "Logger", "_c05_stub", "stub"
			h = rootHandle
		}
		if err := log.Refresh(m); err != nil {
			log.Destroy()
			return fmt.Errorf("Refresh rejected a valid configuration: %v", err)
		}
		submitEv = func(id int64) { log.Info(context.Background(), tagMain, log.Int("id", id)) }
		submitRaw = func(id int64) { _, _ = h.Write([]byte("id=" + strconv.FormatInt(id, 10) + "\n")) }
		rawWrite = func(b []byte) { _, _ = h.Write(b) }
		stop = log.Destroy
		stopApps = func(bool) any { return nil }
	}

	// fill: one item in flight + Occupancy buffered (never beyond capacity: nothing is discarded)
	var want []int64
	total := c.Occupancy + 1
	if c.Worker == "slow" && total > c.Size {
		// without a gate nobody knows whether the worker already holds the first item, so only
		// Size submissions are certain to fit (one more could legitimately be discarded)
		total = c.Size
	}
	id := int64(0)
	empties := 0
	sub := func() {
		id++
		if c.EmptyRaw && id%5 == 4 {
			// an empty raw write is an item like any other: it takes a slot and is handed to the appenders
			empties++
			if id%2 == 0 {
				rawWrite(nil)
			} else {
				rawWrite([]byte{})
			}
			return
		}
		want = append(want, id)
		if id%3 == 0 {
			submitRaw(id)
		} else {
			submitEv(id)
		}
	}
	if done, p := vk.Within(20*time.Second, func() {
		sub()
		if gate != nil {
			<-gate.Entered // the worker is now parked inside the recorder with item 1
		}
		for i := 1; i < total; i++ {
			sub()
		}
	}); !done || p != nil {
		return fmt.Errorf("VERIF-HANG submitting %d items with room in the buffer did not finish (panic=%v)", total, p)
	}
	if c.Worker == "drained" {
		close(gate.Release)
		deadline := time.Now().Add(20 * time.Second)
		for vk.Rec("rec").Len() < total && time.Now().Before(deadline) {
			time.Sleep(time.Millisecond)
		}
	}

	// the call under test
	type snap struct {
		rec     []int64
		files   map[string][]int64
		console []int64
		empties int
	}
	var at snap
	result := make(chan any, 1)
	go func() {
		defer func() { result <- recover() }()
		stop()
		// immediately on return, no sleep:
		for _, it := range vk.Rec("rec").Items() {
			if it.Raw && len(it.Bytes) == 0 {
				at.empties++
				continue
			}
			at.rec = append(at.rec, it.ID)
		}
		at.files = map[string][]int64{}
		for _, s := range c.Sinks {
			switch s {
			case "file":
				at.files["file plain.log"] = idsIn(readAll(dir, "plain.log"))
			case "rolling":
				at.files["rolling file roll.log.*"] = idsIn(readAll(dir, "roll.log."))
			case "console":
				at.console = idsIn(console.Bytes())
			}
		}
	}()
	if c.Worker == "parked" {
		time.Sleep(time.Duration(c.DelayMS) * time.Millisecond)
		close(gate.Release)
	}
	select {
	case p := <-result:
		if p != nil {
			return fmt.Errorf("Stop/Destroy panicked: %v", p)
		}
	case <-time.After(30*time.Second + time.Duration(total)*2*time.Millisecond):
		return fmt.Errorf("VERIF-HANG Stop/Destroy did not return although nothing it may wait for is held back any more")
	}
	if d := sameIDs(at.rec, want); d != "" {
		return fmt.Errorf("when Stop/Destroy returned the recording appender %s", d)
	}
	if at.empties != empties {
		return fmt.Errorf("when Stop/Destroy returned the recording appender had received %d empty raw writes, %d were accepted", at.empties, empties)
	}
	for where, got := range at.files {
		if d := sameIDs(got, want); d != "" {
			return fmt.Errorf("when Stop/Destroy returned the %s %s", where, d)
		}
	}
	for _, s := range c.Sinks {
		if s == "console" {
			if d := sameIDs(at.console, want); d != "" {
				return fmt.Errorf("when Stop/Destroy returned the console stream %s", d)
			}
		}
	}
	if p := stopApps(c.TwiceStop); p != nil {
		return fmt.Errorf("stopping the appenders (twice=%v) panicked: %v", c.TwiceStop, p)
	}
	if !c.Direct && c.TwiceStop {
		if p := vk.Catch(log.Destroy); p != nil {
			return fmt.Errorf("second Destroy panicked: %v", p)
		}
	}
	if open := fdsInto(dir); len(open) != 0 {
		return fmt.Errorf("after everything was stopped the process still holds descriptors on %v", open)
	}
	return nil
}

func TestC05_AsyncStop(t *testing.T) {
	vk.Rule(rule)
	base := vk.Scratch("c05a")
	n := 0
	rapid.Check(t, func(t *rapid.T) {
		c := genAsyncCase(t)
		n++
		dir := filepath.Join(base, strconv.Itoa(n))
		_ = os.MkdirAll(dir, 0o755)
		defer os.RemoveAll(dir)
		vk.Eval()
		vk.Class("async:" + c.Worker)
		vk.Class("async:policy:" + c.Policy)
		if c.Direct {
			vk.Class("async:direct")
		} else {
			vk.Class("async:refresh")
		}
		if c.Occupancy > 0 || c.Worker != "drained" {
			vk.NonTrivial(c.String())
		}
		vk.Sample(map[string]any{"async_case": c.String()})
		if err := runAsyncCase(c, dir); err != nil {
			if strings.Contains(err.Error(), "VERIF-HANG") {
				vk.HardFail("c05-hang", map[string]any{"case": c}, "C05: %v; case: %s", err, c)
			}
			if strings.Contains(err.Error(), "VERIF-INCONCLUSIVE") {
				t.Fatalf("%v", err)
			}
			t.Fatalf("VERIF-VIOLATION C05: %v\ncase: %s", err, c)
		}
	})
	log.Destroy()
}

// ---------------------------------------------------------------- every logger kind through Refresh + Destroy

type kindCase struct {
	Kind     string // logger | file | console | rolling
	Async    bool
	Separate bool
	Policy   string
	N        int
	Layout   string
}

type kindPlain kindCase

func (c kindCase) String() string { return fmt.Sprintf("%+v", kindPlain(c)) }

func runKindCase(c kindCase, dir string) error {
	log.Destroy()
	vk.ResetRecs()
	console.Reset()
	log.Stdout = console
	m := map[string]string{"enableCaller": "false", "bufferCap": "10KB", "appender.unused.type": "Discard", "logger.c05h.tags": "_c05_main"}
	if c.Layout != "" {
		m["logger.c05h.layout.type"] = c.Layout
	}
	switch c.Kind {
	case "logger":
		m["logger.c05h.type"] = "Logger"
		f, r := "f", "r"
		switch c.N % 3 { // an appender may be called like the logger that uses it
		case 1:
			f = "c05h"
		case 2:
			r = "c05h"
		}
		m["appender."+f+".type"], m["appender."+f+".fileDir"], m["appender."+f+".fileName"] = "File", dir, "plain.log"
		m["appender."+r+".type"], m["appender."+r+".fileDir"], m["appender."+r+".fileName"], m["appender."+r+".rotation"], m["appender."+r+".maxAge"] = "RollingFile", dir, "roll.log", "h", "100"
		m["logger.c05h.appenderRef[0].ref"], m["logger.c05h.appenderRef[1].ref"] = f, r
	case "file":
		m["logger.c05h.type"], m["logger.c05h.fileDir"], m["logger.c05h.fileName"] = "File", dir, "plain.log"
	case "console":
		m["logger.c05h.type"] = "Console"
	case "rolling":
		m["logger.c05h.type"], m["logger.c05h.fileDir"], m["logger.c05h.fileName"], m["logger.c05h.rotation"] = "RollingFile", dir, "roll.log", "h"
		m["logger.c05h.async"], m["logger.c05h.separate"] = strconv.FormatBool(c.Async), strconv.FormatBool(c.Separate)
		m["logger.c05h.bufferSize"], m["logger.c05h.bufferFullPolicy"] = "100", c.Policy
	}
	if err := log.Refresh(m); err != nil {
		log.Destroy()
		return fmt.Errorf("Refresh rejected a valid configuration: %v", err)
	}
	var wantInfo, wantWarn, wantRaw []int64
	done, p := vk.Within(30*time.Second, func() {
		for i := int64(1); i <= int64(c.N); i++ {
			switch i % 3 {
			case 0:
				log.Warn(context.Background(), tagMain, log.Int("id", i))
				wantWarn = append(wantWarn, i)
			case 1:
				log.Info(context.Background(), tagMain, log.Int("id", i))
				wantInfo = append(wantInfo, i)
			default:
				_, _ = handle.Write([]byte("id=" + strconv.FormatInt(i, 10) + "\n"))
				wantRaw = append(wantRaw, i)
			}
		}
		log.Destroy()
	})
	if p != nil {
		return fmt.Errorf("logging + Destroy panicked: %v", p)
	}
	if !done {
		return fmt.Errorf("VERIF-HANG logging %d items + Destroy did not return", c.N)
	}
	merge := func(lists ...[]int64) []int64 {
		var all []int64
		for _, l := range lists {
			all = append(all, l...)
		}
		sort.Slice(all, func(i, j int) bool { return all[i] < all[j] })
		return all
	}
	everything := merge(wantInfo, wantWarn, wantRaw)
	switch c.Kind {
	case "logger":
		for where, prefix := range map[string]string{"file plain.log": "plain.log", "rolling file": "roll.log."} {
			if d := sameIDs(idsIn(readAll(dir, prefix)), everything); d != "" {
				return fmt.Errorf("after Destroy the %s %s", where, d)
			}
		}
	case "file":
		if d := sameIDs(idsIn(readAll(dir, "plain.log")), everything); d != "" {
			return fmt.Errorf("after Destroy the file %s", d)
		}
	case "console":
		if d := sameIDs(idsIn(console.Bytes()), everything); d != "" {
			return fmt.Errorf("after Destroy the console stream %s", d)
		}
	case "rolling":
		// with the Block policy (or a synchronous logger) nothing may be missing; with a discard
		// policy and 100 slots up to N-100.. items may legitimately be dropped, so N <= 100 here
		var normal, wf []byte
		ents, _ := os.ReadDir(dir)
		for _, e := range ents {
			b, _ := os.ReadFile(filepath.Join(dir, e.Name()))
			if strings.HasPrefix(e.Name(), "roll.log.wf.") {
				wf = append(wf, b...)
			} else {
				normal = append(normal, b...)
			}
		}
		if c.Separate {
			if d := sameIDs(idsIn(normal), merge(wantInfo, wantRaw)); d != "" {
				return fmt.Errorf("after Destroy the rolling logger's normal file %s", d)
			}
			if d := sameIDs(idsIn(wf), merge(wantWarn, wantRaw)); d != "" {
				return fmt.Errorf("after Destroy the rolling logger's .wf file %s", d)
			}
		} else if d := sameIDs(idsIn(normal), everything); d != "" {
			return fmt.Errorf("after Destroy the rolling logger's file %s", d)
		}
	}
	if open := fdsInto(dir); len(open) != 0 {
		return fmt.Errorf("after Destroy the process still holds descriptors on %v", open)
	}
	return nil
}

func TestC05_Kinds(t *testing.T) {
	vk.Rule(rule)
	base := vk.Scratch("c05k")
	n := 0
	rapid.Check(t, func(t *rapid.T) {
		c := kindCase{
			Kind:     rapid.SampledFrom([]string{"rolling", "rolling", "logger", "file", "console"}).Draw(t, "kind"),
			Async:    rapid.Bool().Draw(t, "async"),
			Separate: rapid.Bool().Draw(t, "separate"),
			Policy:   rapid.SampledFrom([]string{"Block", "Discard", "DiscardOldest"}).Draw(t, "policy"),
			N:        rapid.IntRange(0, 100).Draw(t, "n"),
			Layout:   rapid.SampledFrom([]string{"", "TextLayout", "JSONLayout"}).Draw(t, "layout"),
		}
		if c.Policy == "Block" && rapid.Bool().Draw(t, "many") {
			c.N = rapid.IntRange(100, 1500).Draw(t, "nBig")
		}
		n++
		dir := filepath.Join(base, strconv.Itoa(n))
		_ = os.MkdirAll(dir, 0o755)
		defer os.RemoveAll(dir)
		vk.Eval()
		vk.Class("kind:" + c.Kind)
		if c.Kind == "rolling" && c.Async {
			vk.Class("kind:rolling-async")
		}
		if c.N > 0 && (c.Kind == "rolling" && c.Async) {
			vk.NonTrivial(c.String())
		}
		vk.Sample(map[string]any{"kind_case": c.String()})
		if err := runKindCase(c, dir); err != nil {
			if strings.Contains(err.Error(), "VERIF-HANG") {
				vk.HardFail("c05-hang", map[string]any{"case": c}, "C05: %v; case: %s", err, c)
			}
			t.Fatalf("VERIF-VIOLATION C05: %v\ncase: %s", err, c)
		}
	})
	log.Destroy()
}

// ---------------------------------------------------------------- running rolling appender: descriptor count over real boundaries

func TestC05_RollingDescriptors(t *testing.T) {
	vk.Rule(rule)
	vk.Assume("the wall clock does not step during a run")
	base := vk.Scratch("c05r")
	// the collector is off for these few seconds: a descriptor the appender merely forgot would
	// otherwise be closed by a finalizer before anybody counts
	defer debug.SetGCPercent(debug.SetGCPercent(-1))
	runs := 2
	if vk.Thorough() {
		runs = 6
	}
	type outcome struct {
		err   error
		files int
	}
	res := make(chan outcome, runs)
	for r := 0; r < runs; r++ {
		go func() {
			dir := filepath.Join(base, "run"+strconv.Itoa(r))
			_ = os.MkdirAll(dir, 0o755)
			a := &log.RollingFileAppender{AppenderBase: log.AppenderBase{Name: "r"}, Layout: &log.TextLayout{BaseLayout: log.BaseLayout{FileLineLength: 48}},
				FileDir: dir, FileName: "d.log", Rotation: log.TimeRotation{Interval: time.Second}, MaxAge: 100}
			if err := a.Start(); err != nil {
				res <- outcome{err: fmt.Errorf("VERIF-INCONCLUSIVE: %v", err)}
				return
			}
			end := time.Now().Add(time.Duration(3500+r*400) * time.Millisecond)
			i := 0
			if r%2 == 1 {
				// the directory is away while one boundary passes (a rotation fails): what the appender
				// holds afterwards, and after Stop, is still at most two descriptors and then none
				go func() {
					time.Sleep(1200 * time.Millisecond)
					if os.Rename(dir, dir+".away") == nil {
						time.Sleep(1300 * time.Millisecond)
						_ = os.Rename(dir+".away", dir)
					}
				}()
			}
			// odd runs: several writers hammer the appender around every boundary; a quiescent
			// point is reached by taking the writers' lock exclusively
			var quiet sync.RWMutex
			var extra atomic.Int64
			var wwg sync.WaitGroup
			if r%2 == 1 || runs == 2 && r == 0 {
				for w := 0; w < 8; w++ {
					wwg.Add(1)
					go func() {
						defer wwg.Done()
						for time.Now().Before(end) {
							now := time.Now()
							d := now.Sub(now.Truncate(time.Second))
							if d > 40*time.Millisecond && d < 960*time.Millisecond {
								time.Sleep(5 * time.Millisecond)
								continue
							}
							quiet.RLock()
							a.Write([]byte("id=" + strconv.Itoa(1_000_000+int(extra.Add(1))) + "\n"))
							quiet.RUnlock()
						}
					}()
				}
			}
			for time.Now().Before(end) {
				quiet.RLock()
				a.Write([]byte("id=" + strconv.Itoa(i) + "\n"))
				quiet.RUnlock()
				i++
				// quiescent point: no write in progress on this appender
				quiet.Lock()
				open := fdsInto(dir)
				quiet.Unlock()
				if len(open) > 2 {
					end = time.Now()
					wwg.Wait()
					a.Stop()
					res <- outcome{err: fmt.Errorf("a running rolling appender holds %d descriptors %v while no write is in progress (at most two expected)", len(open), open)}
					return
				}
				time.Sleep(time.Duration(20+7*r) * time.Millisecond)
			}
			wwg.Wait()
			i += int(extra.Load())
			a.Stop()
			if open := fdsInto(dir); len(open) != 0 {
				res <- outcome{err: fmt.Errorf("after Stop the rolling appender still holds %v", open)}
				return
			}
			if p := vk.Catch(a.Stop); p != nil {
				res <- outcome{err: fmt.Errorf("second Stop panicked: %v", p)}
				return
			}
			if open := fdsInto(dir); len(open) != 0 {
				res <- outcome{err: fmt.Errorf("second Stop reopened %v", open)}
				return
			}
			ents, _ := os.ReadDir(dir)
			got := idsIn(readAll(dir, "d.log."))
			if len(got) != i {
				res <- outcome{err: fmt.Errorf("%d writes, %d lines in the files after Stop", i, len(got))}
				return
			}
			res <- outcome{files: len(ents)}
		}()
	}
	for r := 0; r < runs; r++ {
		o := <-res
		vk.Eval()
		vk.Class("rolling-descriptors-run")
		if o.files >= 3 {
			vk.NonTrivial(fmt.Sprintf("rolling-fd-run-%d-files-%d", r, o.files))
		}
		if o.err != nil {
			t.Fatalf("VERIF-VIOLATION C05: %v", o.err)
		}
	}
	vk.Sample(map[string]any{"rolling_descriptor_runs": runs, "duration_s": 3.5})
}

// TestRegress_C05: the rolling-file logger in async mode (found through C01 as a hang, fixed in
// /repo) must flush a burst on Destroy for every policy.
func TestRegress_C05(t *testing.T) {
	base := vk.Scratch("c05g")
	for i, c := range []kindCase{
		{Kind: "rolling", Async: true, Policy: "Block", N: 300},
		{Kind: "rolling", Async: true, Separate: true, Policy: "Discard", N: 90},
		{Kind: "rolling", Async: true, Policy: "DiscardOldest", N: 100, Layout: "JSONLayout"},
	} {
		dir := filepath.Join(base, strconv.Itoa(i))
		_ = os.MkdirAll(dir, 0o755)
		vk.Eval()
		if err := runKindCase(c, dir); err != nil {
			t.Fatalf("VERIF-VIOLATION C05 regress: %v\ncase: %s", err, c)
		}
	}
	log.Destroy()
}

// TestC05_SlowDrain: "in bounded time" is bounded by what was accepted, not by a grace period.
// A backlog whose delivery takes longer than any plausible shutdown grace (about 4 s here: the
// appender needs 400-500 ms per item) is still handed over completely before Stop / Destroy
// returns - through a directly built logger and through Refresh + Destroy.
func TestC05_SlowDrain(t *testing.T) {
	vk.Rule(rule)
	for _, viaRefresh := range []bool{false, true} {
		log.Destroy()
		vk.ResetRecs()
		vk.SetBehavior("slow", &vk.Behavior{Delay: func(n int) time.Duration { return time.Duration(400+n%3*50) * time.Millisecond }})
		const N = 9
		var stop func()
		tag := log.RegisterTag("_c05_slow")
		if viaRefresh {
			if err := log.Refresh(map[string]string{"enableCaller": "false", "appender.slow.type": "Rec", "logger.c05h.type": "AsyncLogger", "logger.c05h.tags": "_c05_slow",
				"logger.c05h.bufferSize": "100", "logger.c05h.bufferFullPolicy": "Discard", "logger.c05h.appenderRef.ref": "slow"}); err != nil {
				t.Fatalf("VERIF-INCONCLUSIVE C05: %v", err)
			}
			for i := 0; i < N; i++ {
				log.Info(context.Background(), tag, log.Int("id", i))
			}
			stop = log.Destroy
		} else {
			a := &vk.RecAppender{AppenderBase: log.AppenderBase{Name: "slow"}}
			_ = a.Start()
			all := log.LevelRange{MinLevel: log.NoneLevel, MaxLevel: log.MaxLevel}
			l := &log.AsyncLogger{LoggerBase: log.LoggerBase{Name: "s", Level: all}, AppenderRefs: log.AppenderRefs{AppenderRefs: []*log.AppenderRef{{Appender: a, Level: all}}}, BufferSize: 100, BufferFullPolicy: log.BufferFullPolicyBlock}
			if err := l.Start(); err != nil {
				t.Fatalf("VERIF-INCONCLUSIVE C05: %v", err)
			}
			for i := 0; i < N; i++ {
				e := log.GetEvent()
				e.Level, e.Time, e.Tag, e.Fields = log.InfoLevel, time.Now(), "_c05_slow", []log.Field{log.Int("id", i)}
				l.Append(e)
			}
			stop = l.Stop
		}
		t0 := time.Now()
		done, p := vk.Within(60*time.Second, stop)
		took := time.Since(t0)
		got := 0
		if r := vk.Rec("slow"); r != nil {
			got = r.Len()
		}
		vk.Eval()
		vk.Class(fmt.Sprintf("slow-drain:refresh=%v", viaRefresh))
		vk.NonTrivial(fmt.Sprintf("slow-drain/%v", viaRefresh))
		vk.Sample(map[string]any{"scenario": "backlog that needs about 4 s", "via_refresh": viaRefresh, "stop_took_ms": took.Milliseconds(), "delivered_at_return": got})
		vk.SetBehavior("slow", nil)
		if p != nil {
			t.Fatalf("VERIF-VIOLATION C05: Stop/Destroy panicked: %v", p)
		}
		if !done {
			vk.HardFail("c05-slowdrain", map[string]any{"via_refresh": viaRefresh}, "C05: Stop/Destroy did not return within 60 s although the appender needs about 4 s for the backlog")
		}
		if got != N {
			t.Fatalf("VERIF-VIOLATION C05: %d events were accepted by an asynchronous logger whose appender takes 400-500 ms per event; when Stop/Destroy returned after %v the appender had received %d of them (refresh-built=%v)", N, took.Round(time.Millisecond), got, viaRefresh)
		}
		log.Destroy()
	}
}
