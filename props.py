# Per-property run plans for ./check. Each step names a go test regexp inside the property's
# package and gives, per tier, rapid case counts, shard counts (separate processes with distinct
# derived seeds), extra environment and a timeout in seconds.
PROPS = {}
NOT_CLAIMED = {}
HOOK_COMMITS = ['d073cfa']

PROPS["C09"] = dict(
    pkg="c09", level="exploration", exhaustive_core=True,
    technique="bounded-exhaustive enumeration + rapid random strings + native fuzzing against an independent RFC 8259/3629 decoder",
    level_text="Exploration: every byte string of length <=3 (quick) / <=4 (thorough) and every boundary-alphabet string up to length 5/6 is escaped and decoded by an independent scanner; because the escaper is a memoryless loop with at most 4 bytes look-ahead this window determines its output on all strings, and random 64 KiB strings plus coverage-guided fuzzing guard the memorylessness assumption. In the layouts test the JSON header members (file path clipped at widths 3-200, tag, context string, level name) are hostile strings too. An escape-lookalike alphabet (backslash, u, hex digits, quote, n) is enumerated to length 7/8; a concurrent step formats different hostile strings from 2-16 goroutines through shared layouts. Hostile later keys in the text encoder.",
    level_note="Trusted: the harness's own RFC 3629 table and RFC 8259 string scanner (cross-checked against encoding/json on every string of length <=3 and a 1/64 sample beyond); the window argument assumes WriteLogString keeps no state between loop iterations.",
    rule="bounded-exhaustive enumeration of byte strings (all strings of length <=3 quick / <=4 thorough over the full byte alphabet; length <=5 quick / <=6 thorough over a 24-symbol UTF-8 boundary alphabet) plus rapid-generated hostile strings up to 64 KiB, alone and as key/value through both layouts; non-trivial = input contains a byte that needs escaping or replacement",
    steps=[
        dict(test="^TestC09_(Replay|Exhaustive)$", quick=dict(timeout=600), thorough=dict(timeout=1800)),
        dict(test="^TestC09_Exhaustive4$", thorough=dict(shards=4, timeout=3600)),
        dict(test="^TestC09_(Random|Layouts)$", quick=dict(checks=1500, timeout=600), thorough=dict(checks=20000, shards=8, timeout=3000)),
        dict(test="^TestC09_ConcurrentLayouts$", quick=dict(checks=40, timeout=600), thorough=dict(checks=800, shards=2, timeout=3000)),
    ],
    fuzz=[dict(target="FuzzC09", seconds=90)],
)

PROPS["C18"] = dict(
    pkg="c18", level="exploration", exhaustive_core=True,
    technique="bounded-exhaustive enumeration + rapid random strings against a regular-expression oracle and a model registry",
    level_text="Exploration: the accepted set is compared with the documented language (regexp + length bounds) on every string up to length 5 (quick) / 8 (thorough) over a 10-symbol boundary alphabet and on every segment-length composition at total lengths 2..38, where validity can only depend on length and segment structure; the registry is compared with a model set after each block. A rapid state machine repeats registrations across Refresh/Destroy cycles (configurations naming unregistered and ill-formed tags): same tag object, list = registered names. Helper sub types with two segments and with the helper's own main type as first segment; parts building an ill-formed name must be refused. Refused registrations leave no tag behind; an early-rejected Refresh locks nothing. Helper parts with misplaced underscores. Neighbours of the accepted character ranges; three-segment helper sub types.",
    level_note="Trusted: Go's regexp package and the harness's model set. Assumes validity depends only on length, alphabet class and underscore structure (random byte/unicode strings probe the rest).",
    rule="strings enumerated over {a z 0 9 _ A - space { `} up to length 5/8, all compositions of 1..38 characters into 1..5 segments with leading/trailing/doubled underscore variants, rapid random byte/unicode/near-language strings and helper-built names; non-trivial = accepted, or rejected although drawn from the right alphabet",
    steps=[
        dict(test="^TestC18_(Replay|ExhaustiveAlphabet|Compositions)$", quick=dict(timeout=600), thorough=dict(shards=5, timeout=1800)),
        dict(test="^TestC18_Random$", quick=dict(checks=3000, timeout=600), thorough=dict(checks=40000, shards=8, timeout=1800)),
        dict(test="^TestC18_Lifecycle$", quick=dict(checks=300, timeout=600), thorough=dict(checks=5000, shards=4, timeout=1800)),
    ],
)

PROPS["C17"] = dict(
    pkg="c17", level="exploration",
    technique="grammar-based generation with an independent reference flattener, metamorphic re-rendering, mutation/totality search and native fuzzing",
    level_text="Exploration: well-formed expressions are generated from the grammar (as a specification) and the returned map is compared with an independent flattener of the AST, then re-rendered with other spacing; totality is searched with random bytes, token soup, mutations of valid inputs, pathological shapes up to the 64 KiB bound, and coverage-guided fuzzing. Sequence clauses: the same expression with one more space inside a string literal must give its own map; a malformed input (defect inside a nested block) precedes a third of the exact cases. A concurrent step parses generated batches from 2-16 goroutines.",
    level_note="Trusted: the harness's AST generator/renderer/flattener (written from Expr.g4 and the property text). Totality is sampled, not proved; a 120 s watchdog expiry is reported as inconclusive, not as a violation.",
    rule="ASTs generated from Expr.g4 rendered with random spacing (exactness) and random/mutated/pathological inputs (totality)",
    steps=[
        dict(test="^Test(Regress_C17|C17_Exact|C17_Total)$", quick=dict(checks=2500, timeout=900), thorough=dict(checks=30000, shards=12, timeout=3000)),
        dict(test="^TestC17_Concurrent$", quick=dict(checks=40, timeout=900), thorough=dict(checks=1500, shards=4, timeout=3000)),
        dict(test="^TestC17_Large$", quick=dict(timeout=900), thorough=dict(timeout=3000)),
    ],
    fuzz=[dict(target="FuzzC17", seconds=150)],
)

PROPS["C07"] = dict(
    pkg="c07", level="exploration",
    technique="rapid generation over every field constructor with an expected-tree oracle decoded by encoding/json and a strict RFC 8259 scanner; native fuzzing of the same property",
    level_text="Exploration: generated events (all constructors, hostile byte-string keys/values, boundary numbers, nesting) are formatted directly and end-to-end; each line must be one strict RFC 8259 object and decode, member by member in order, to the tree the generator expected (exact integers, bit-exact floats, sanitised strings, nulls, structure). Levels include distinct levels sharing a code and level names that need escaping; end to end an earlier event may hold a prefix of the checked event's context-field slice. The reflect zoo contains json.RawMessage values with line feeds; end to end also with enableCaller=false. Named scalar types with their own MarshalJSON/MarshalText; an oversized line before the judged one. Nil array values; object towers of 40-300 levels.",
    level_note="Trusted: the generator's own expectation builder (vk/fieldgen.go), encoding/json's token decoder and the harness's RFC 8259/3629 scanner. Sampled, not exhaustive.",
    rule="events generated from every public field constructor with hostile keys/strings and boundary numbers, formatted by JSONLayout directly and through log.Record + Refresh-built console logger",
    steps=[
        dict(test="^Test(Regress_C07\\w*|C07_Direct|C07_EndToEnd)$", quick=dict(checks=12000, timeout=900), thorough=dict(checks=40000, shards=12, timeout=3000)),
    ],
    fuzz=[dict(target="FuzzC07", seconds=120)],
)

PROPS["C08"] = dict(
    pkg="c08", level="exploration",
    technique="differential testing of TextLayout against JSONLayout tokens over rapid-generated events and widths, with an independently computed header; native fuzzing of the same property",
    level_text="Exploration: for generated events and widths -5..200 the text line must equal, byte for byte, the line assembled from an independent header (level, millisecond time from calendar fields, documented truncation rule) and the raw JSON member tokens of the same event (quotes dropped exactly for string fields, error texts and non-finite floats); one newline, no raw control byte, no panic for any width; also end-to-end with the width configured through Refresh. Levels include distinct levels sharing a code; end to end an earlier event may hold a prefix of the checked event's context-field slice. Context strings containing the separator; file paths with multi-byte characters. Nil array values and object towers; the same event through a layout of another width first.",
    level_note="Trusted: JSONLayout's tokens as reference (validated independently in C07), the harness's header/truncation reimplementation, the generator's knowledge of which fields are string-like.",
    rule="C07 event generator x widths -5..200, direct ToBytes and end-to-end through Refresh-configured console TextLayout",
    steps=[
        dict(test="^Test(Regress_C08\\w*|C08_Direct|C08_EndToEnd)$", quick=dict(checks=8000, timeout=900), thorough=dict(checks=40000, shards=12, timeout=3000)),
    ],
    fuzz=[dict(target="FuzzC08", seconds=120)],
)

PROPS["C01"] = dict(
    pkg="c01", level="exploration",
    technique="rapid-generated configurations and event sets checked against a reference routing model; bounded-exhaustive sweep of two-reference configurations",
    level_text="Exploration: configurations (all logger kinds, range strings in any case/spacing, 1-4 references in any declaration order, equal lower bounds frequent, competing loggers) are refreshed and every entry point plus Record at generated levels is logged; deliveries observed at recording appenders, console stream and files must equal, with multiplicity one, what an independent model of the property text predicts; plus all 8100 two-reference configurations over the built-in levels. Explicit upper bounds may be user levels above MAX (except for the rolling-file logger), and two references of one logger may name the same appender with disjoint explicit ranges (expected deliveries = union). A concurrent step logs the event list from 2-8 goroutines at once; asynchronous loggers also run with the Discard policy after an earlier overflow. The logger may also be configured as root. A second level name for WARN's code.",
    level_note="Trusted: the harness's range parser/chaining model (written from the property text) and recording appender. An explicit ~MAX upper bound is generated only where it cannot be told apart from an open end (documented sentinel).",
    rule="generated configurations x all entry points x generated levels; exhaustive two-reference sweep",
    steps=[
        dict(test="^Test(Regress_C01|C01_Generated)$", quick=dict(checks=3000, timeout=900), thorough=dict(checks=40000, shards=12, timeout=3000)),
        dict(test="^TestC01_Sweep$", quick=dict(timeout=900), thorough=dict(shards=4, timeout=1800)),
        dict(test="^TestC01_Concurrent$", quick=dict(checks=40, timeout=900), thorough=dict(checks=600, shards=4, timeout=3000)),
    ],
)

PROPS["C03"] = dict(
    pkg="c03", race=True, level="exploration",
    technique="rapid-generated concurrent workloads with a harness-owned slow sink, self-validating payloads, a concurrent-vs-sequential metamorphic multiset oracle, and the race detector",
    level_text="Exploration over schedules and inputs: 2-64 goroutines log self-validating events through every synchronous path to console/file/rolling sinks; the console sink consumes bytes slowly in chunks (the harness owns that part of the schedule); every line must be whole and the multiset of concurrently written lines must equal byte-for-byte what the same events produce one at a time; built with -race so that a recycled buffer still being written is a happens-before report even for file sinks. Half of the cases hand every event one shared context-field slice with spare capacity through FieldsFromContext; one path has two loggers with their own File appenders on one file; event timestamps share a few milliseconds. Every event carries control characters that differ per goroutine; lines reach 200 KB; context strings differ per goroutine. fastCaller on or off per case.",
    level_note="Interleavings are sampled, not enumerated. Trusted: Go's race detector and the harness sink. File sinks cannot be slowed in-process; for them the race detector and the multiset oracle carry the check.",
    rule="generated (G, events, layout, path, bufferCap, payload sizes, sink delay pattern)",
    steps=[
        dict(test="^Test(Regress_C03|C03_Concurrent)$", quick=dict(checks=60, timeout=900), thorough=dict(checks=250, shards=12, timeout=3000)),
    ],
)

PROPS["C02"] = dict(
    pkg="c02", level="exploration",
    technique="rapid-generated tag sets and logger tag lists (with injected conflict faults) checked against an independent longest-prefix matcher, each configuration refreshed three times",
    level_text="Exploration: tag registrations accumulate over a dense prefix-sharing universe; for each generated configuration every registered tag is logged once and must arrive at exactly the logger an independent longest-prefix matcher predicts (literal, longest wildcard, configured root or built-in console), identically over three Refresh/Destroy rounds; configurations with one injected fault must make Refresh return an error. Tag lists are also laid out over several lines; loggers may carry level ranges that exclude the test event (a silent logger still owns its tags: the event reaches nobody). The first logger's name is also requested as a handle. The configured root may be asynchronous; logging calls run under a watchdog. Logger names on both sides of root; tag lists through ${property} placeholders.",
    level_note="Trusted: the harness's matcher (string-prefix based, no code shared with findLoggerForTag) and recording appenders. Wildcards with inner '*' and the empty-stem wildcard '_*' are not generated as clean inputs (the property does not pin them down).",
    rule="generated tag universe subsets x logger tag lists x injected faults",
    steps=[
        dict(test="^Test(Regress_C02|C02_Routing)$", quick=dict(checks=1500, timeout=900), thorough=dict(checks=8000, shards=12, timeout=3000)),
    ],
)

PROPS["C12"] = dict(
    pkg="c12", race=True, level="exploration",
    technique="rapid-generated logger configurations and write scripts (payload shapes, recycled caller buffer with the async worker parked in a gated appender, concurrent writers) against an exact-sequence oracle; race detector",
    level_text="Exploration: for generated configurations of the loggers behind four named handles and generated write scripts, every appender (or console/file sink) of the written logger must hold exactly the bytes present at call time, once each and in call order (per writer under concurrency), Write must report the full length, other loggers must see nothing, and a configuration omitting a requested name must be rejected; the buffer-reuse hazard is made deterministic by parking the async worker in a gate while the caller overwrites its buffer; built with -race. One child process per generated 'strange' handle name (configuration paths below a configured logger, appender names, other spellings): Refresh must fail. Strange names include tag literals; a restart step gives a logger value 2-4 lives. Text sent with io.WriteString from several goroutines; a backlog that outlasts 3 s at Destroy.",
    level_note="Trusted: harness recording/gated appender (copies bytes at delivery). Concurrent interleavings are sampled. The property's 'every appender of the logger' is read for the rolling-file logger as both of its files when separate=true.",
    rule="generated handle configurations x write scripts",
    steps=[
        dict(test="^Test(Regress_C12|C12_Write|C12_MissingName)$", quick=dict(checks=250, timeout=900), thorough=dict(checks=2500, shards=12, timeout=3000)),
        dict(test="^TestC12_OverflowReuse$", quick=dict(checks=25, timeout=900), thorough=dict(checks=150, shards=6, timeout=3000)),
        dict(test="^TestC12_Restart$", quick=dict(checks=60, timeout=900), thorough=dict(checks=1500, shards=4, timeout=3000)),
        dict(test="^TestC12_StrangeName$", quick=dict(checks=15, timeout=900), thorough=dict(checks=150, shards=4, timeout=3000)),
    ],
)

PROPS["C04"] = dict(
    pkg="c04", race=True, level="exploration",
    technique="rapid state-machine histories with a harness-owned worker schedule (gated appender) against a bounded-FIFO reference model; randomised multi-producer runs under the race detector",
    level_text="Exploration over schedules: in domain A the harness single-steps the async worker through a gated appender, so buffer occupancy is a deterministic function of the generated history and a bounded-FIFO model (capacity N + one in-flight slot) gives the exact delivered count and discard counter after Stop; in domain B 1-32 producers run against fast/slow/stalling appenders and delivered + discarded = submitted, no duplicates, nothing disabled delivered, Block => counter 0 are checked. Histories contain raw writes with empty payloads and events at a user level registered after the logger started; a second reference restricted to [ERROR,MAX) must see exactly the raw writes. Logger values may have been stopped and started before; raw writes larger than the buffer-reuse cap are items too. References in generated order; events at level NONE.",
    level_note="Trusted: the harness queue model and gated recording appender. For Refresh-built loggers the discard counter is not observable through public API (only the delivered set is compared). Domain B samples schedules.",
    rule="generated histories / producer mixes",
    steps=[
        dict(test="^TestC04_Controlled$", quick=dict(checks=300, timeout=900), thorough=dict(checks=1500, shards=10, timeout=3000)),
        dict(test="^TestC04_Random$", quick=dict(checks=40, timeout=900), thorough=dict(checks=200, shards=6, timeout=3000)),
    ],
)
PROPS["C06"] = dict(
    pkg="c06", race=True, level="exploration",
    technique="rapid state-machine histories plus bounded-exhaustive short histories from a full buffer, with a harness-owned worker schedule, against an executable queue model per overflow policy",
    level_text="Exploration over histories: with the worker parked in a gated appender, every generated history (and every history of length <= 4 quick / <= 6 thorough from a full buffer) must deliver exactly the sequence the policy's queue model predicts (Discard drops the arriving item, DiscardOldest the head, Block waits); a discard-policy call must return while the gate stays shut for good, a Block call must not return before the worker takes an item and must return after; randomised multi-producer runs check per-producer order. Histories also contain below-level events and empty raw writes; in the concurrent DiscardOldest run what survives of one producer must be a gap-free run ending with its last item. Large raw writes; a log call issued while another goroutine is inside Stop (appender stalled, buffer with room) returns under the two discard policies. PANIC-level events arriving at a full buffer under Discard. Explicit Block on the asynchronous rolling-file logger. Buffer sizes up to 1000 in the single-stepped histories. Block with the appender stalled for 4 s (quick) / 15 s (thorough) while 1-3 producers submit more than the buffer holds: nobody finishes early, nothing is dropped or reordered.",
    level_note="Trusted: the harness queue model; 'does not block' is judged only while the gate is never released (definitive), 'blocks' by a 30 ms grace a correct implementation cannot fail. Domain B samples schedules.",
    rule="generated and enumerated histories",
    steps=[
        dict(test="^TestC06_Controlled$", quick=dict(checks=300, timeout=900), thorough=dict(checks=1000, shards=10, timeout=3000)),
        dict(test="^TestC06_Exhaustive$", quick=dict(timeout=900), thorough=dict(shards=6, timeout=3000)),
        dict(test="^TestC06_RandomOrder$", quick=dict(checks=30, timeout=900), thorough=dict(checks=200, shards=6, timeout=3000)),
        dict(test="^TestC06_ConcurrentDiscard$", quick=dict(checks=30, timeout=900), thorough=dict(checks=300, shards=4, timeout=3000)),
        dict(test="^TestC06_RollingAsyncPolicy$", quick=dict(checks=30, timeout=900), thorough=dict(checks=300, shards=2, timeout=3000)),
        dict(test="^TestC06_CallDuringStop$", quick=dict(checks=40, timeout=900), thorough=dict(checks=600, shards=2, timeout=3000)),
        dict(test="^TestC06_BlockLongStall$", quick=dict(checks=2, timeout=900), thorough=dict(checks=6, shards=4, timeout=3000)),
    ],
)

PROPS["C05"] = dict(
    pkg="c05", level="exploration",
    technique="rapid-generated stop scenarios with a harness-owned worker state (gated/slow appenders) and occupancy, sinks read back at the instant the call returns, /proc/self/fd scanning; real-time rolling-appender runs",
    level_text="Exploration over configurations, occupancies and worker states: the harness fills the async buffer to a generated occupancy while the worker is parked in a gate (or slowed, or idle), issues Stop/Destroy, opens the gate a generated delay later and requires the call to return and every accepted item to be present in recorder, file, rolling file and console at that instant; every Refresh-reachable logger kind (incl. rolling-file async) is destroyed right after a burst; descriptors into the log directory must be gone afterwards, and a running 1 s rolling appender must never hold more than two. Submissions include empty raw writes; the first file-owning appender may be named like its logger. Further steps: a file appender on /dev/full (one descriptor while running, none after Stop, however many writes fail) and Destroy after a Refresh that failed late (everything accepted is on the console or in the recorder exactly once when Destroy returns, nothing arrives later, no descriptor stays open). A backlog that needs about 4 s is handed over before Stop/Destroy returns. The logger under test may be the configured root.",
    level_note="Liveness is judged as 'returned within 30 s + drain time once nothing is held back'. Trusted: /proc/self/fd as the descriptor oracle, the harness gate. Real-time runs assume the wall clock does not step.",
    rule="generated stop scenarios; real-time rolling runs",
    steps=[
        dict(test="^Test(Regress_C05|C05_AsyncStop)$", quick=dict(checks=150, timeout=900), thorough=dict(checks=3000, shards=8, timeout=3000)),
        dict(test="^TestC05_Kinds$", quick=dict(checks=150, timeout=900), thorough=dict(checks=3000, shards=8, timeout=3000)),
        dict(test="^TestC05_RollingDescriptors$", quick=dict(timeout=900), thorough=dict(shards=4, timeout=3000)),
        dict(test="^TestC05_SlowDrain$", quick=dict(timeout=300), thorough=dict(timeout=600)),
        dict(test="^TestC05_FailedRefresh$", quick=dict(checks=80, timeout=900), thorough=dict(checks=2000, shards=4, timeout=3000)),
        dict(test="^TestC05_FailingTarget$", quick=dict(checks=60, timeout=900), thorough=dict(checks=1500, shards=2, timeout=3000)),
    ],
)

PROPS["C10"] = dict(
    pkg="c10", level="exploration",
    technique="rapid state machine over hook settings, logger configurations and entry-point calls with counting hooks and a level-range model",
    level_text="Exploration: sequences of hook set/unset, logger (re)configuration (built-in console, Refresh-built sync/async with generated ranges) and calls of all 15 entry points with fresh contexts; counting hooks and a counting lazy generator must run exactly once with the caller's context iff the model says the level is enabled, and the record (event fields and both layouts' lines) must carry the hooks' values with context fields ahead of call fields. The timestamp hook repeats the same instant in different zones over consecutive events. The timestamp hook sometimes returns the zero time; the concurrent step shares one context-field slice with spare capacity and checks the formatted lines. Context and call fields may share a key. Appender references with a higher floor than the logger's range. Hooks that answer with nothing; the concurrent step also through an asynchronous logger.",
    level_note="Trusted: the harness's level-range model and recording appender. Wall-clock timestamps (hook unset) are accepted within the call window +-1 ms.",
    rule="generated action sequences",
    steps=[
        dict(test="^TestC10_Hooks$", quick=dict(checks=1500, timeout=900), thorough=dict(checks=40000, shards=12, timeout=3000)),
        dict(test="^TestC10_Concurrent$", quick=dict(timeout=900), thorough=dict(shards=4, timeout=3000)),
    ],
)

PROPS["C16"] = dict(
    pkg="c16", level="exploration",
    technique="rapid state-machine sequences plus bounded-exhaustive short sequences over the lifecycle API against a three-state model (unconfigured / live / failed-live)",
    level_text="Exploration over histories: generated sequences (length <= 8, tail to 16) and every sequence up to length 3 (quick) / 5 (thorough) over Refresh(valid A/B, invalid early/late), Destroy, tag logging, handle writes, RegisterTag and GetLogger; after each step the model's expectation is checked (no panic, no block within 10 s, console vs configured appender routing, refusal of registration and of a second Refresh while live, Destroy idempotent), and every history ends with Destroy + Refresh(valid) that must route as configured. Registration is tried through RegisterTag and the app/biz/rpc helpers. 'root' is among the handle names. I/O start failures of asynchronous rolling loggers; asynchronous root in the second configuration. Logging through a root-served tag and through tags/handles obtained in mid-history.",
    level_note="In the failed-live state (a Refresh that failed after it had begun to apply) only 'no panic, no block' is demanded of logging; Refresh/registration outcomes there are not judged because the property does not define them. Trusted: the model and recording appenders.",
    rule="generated and enumerated operation sequences",
    steps=[
        dict(test="^Test(Regress_C16|C16_Generated)$", quick=dict(checks=600, timeout=900), thorough=dict(checks=30000, shards=12, timeout=3000)),
        dict(test="^TestC16_Exhaustive$", quick=dict(timeout=900), thorough=dict(shards=8, timeout=3000)),
    ],
)

PROPS["C11"] = dict(
    pkg="c11", level="exploration",
    prebuild="go1.26.8 run ./c11/gen -seed ${VERIF_SEED:-1} -prefix g -n 900 -out c11/sites_gen_test.go",
    technique="program generation (call-site programs of many shapes with the expectation computed by runtime.Caller on the same source line) driven by rapid sequences over lookup modes and repeated visits",
    level_text="Exploration over programs and configurations: a seeded generator writes hundreds of call sites (15 entry points x 17 shapes incl. closures, defers, goroutines, method values, generics, inlinable/noinline helpers, Record through 1-2 wrapper frames); the committed seed-1 program plus one generated from VERIF_SEED are compiled in, and rapid sequences flip default/fast lookup and caller on/off between repeated visits (frame-cache hits); Event.File/Line must equal the position runtime.Caller reports for the same source line. More than a thousand call sites are linked in and swept twice in fast mode; sequences contain Refreshes rejected for an ill-typed caller option followed by a Refresh that mentions neither option. A shape with a Record skip beyond the stack (empty location in both modes); Refreshes rejected for another reason while carrying opposite caller options. Sites are also called while a saturated asynchronous logger serves the tag (all buffer-full policies). The concurrent step starts with a cold fast-lookup cache reached by all goroutines at once.",
    level_note="Trusted: runtime.Caller as the position oracle. The family of generated programs is finite (no cgo, assembly or multi-line call expressions).",
    rule="generated programs x mode sequences",
    steps=[
        dict(test="^Test(Regress_C11|C11_Sites)$", quick=dict(checks=150, timeout=900), thorough=dict(checks=6000, shards=8, timeout=3000)),
        dict(test="^TestC11_Concurrent$", quick=dict(timeout=900), thorough=dict(timeout=3000)),
        dict(test="^TestC11_Saturated$", quick=dict(checks=60, timeout=900), thorough=dict(checks=1500, shards=2, timeout=3000)),
        dict(test="^TestC11_ManySites$", quick=dict(checks=3, timeout=900), thorough=dict(checks=60, shards=2, timeout=3000)),
    ],
)

PROPS["C14"] = dict(
    pkg="c14", level="exploration",
    technique="rapid-generated directory populations checked against an exact expected-survivor oracle through a synchronous retention hook; real 1 s rotations for the un-hooked path",
    level_text="Exploration over directory states and age configurations: populations mixing own rotated files, near misses, prefix-sharing foreign files, sibling-appender files, unrelated files and directories with modification times on both sides of the cut-off are cleaned through the build-tag-guarded synchronous hook; survivors must be exactly everything minus own files (name.<14 digits>) older than the maximum age (+-1 min tolerance), and the files being written must survive; the asynchronous path is exercised with real 1 s rotations. A scan while the directory is away may precede the judged scan; the real-rotation runs include a Refresh-built RollingFile logger (separate=false) with foreign name.wf.<ts> files. The process lives in a synthetic zone that changed its UTC offset three days ago; FileDir is also spelled with trailing/doubled slashes, /./ and ./relative. Symbolic-link directory; case-variant foreign names. Rotation intervals from 10 minutes to a week. Entries that are not regular files; an earlier appender's file on the same directory and name; WARN events through the separate file.",
    level_note="Uses the verif hook VerifClearExpiredFiles (add-only, build tag verif). Modification times are set with os.Chtimes; entries within one minute of the cut-off may go either way.",
    rule="generated populations; real rotations",
    steps=[
        dict(test="^Test(Regress_C14|C14_Populations)$", quick=dict(checks=600, timeout=900), thorough=dict(checks=20000, shards=8, timeout=3000)),
        dict(test="^TestC14_RealRotation$", quick=dict(timeout=900), thorough=dict(shards=2, timeout=3000)),
    ],
)

PROPS["C13"] = dict(
    pkg="c13", race=True, level="exploration",
    technique="rapid-generated real-time time-lines (writers, boundary-aimed bursts, restarts) against an invariant over the measured write history and the resulting files; race detector",
    level_text="Exploration over schedules and histories in real time: the rotation interval is 1-2 s (public TimeRotation), 8 generated time-lines run in parallel per case with 1-16 writers whose writes are aimed at real interval boundaries, idle intervals and stop/start cycles inside one second; afterwards every file must be named name.<14 digits>, the multiset of well-formed self-describing records must equal what was written (nothing lost, duplicated, torn or truncated), no record may sit in a file named later than the write's completion, and with one writer a write after a boundary must be in that interval's file; built with -race. Edge scenarios: appenders restarted in a tight loop while a boundary passes, then written to once; an appender idle across whole intervals, then 2-12 writers spinning into the same resume instant with long bursts. The process runs in a non-UTC local zone chosen by the seed; a third of the writes go through Append with event times that are not the wall clock. Zones are fixed per step (time-lines west of UTC with maximum ages of 1-3 h); one step lives through changes of the local zone's UTC offset. File names holding digits and time-layout tokens.",
    level_note="Interleavings and boundary hits are sampled; a writer cannot be frozen between loading the file pointer and writing. Timestamps are compared with a 5 ms margin; assumes the wall clock does not step.",
    rule="generated real-time time-lines, 8 per case in parallel",
    steps=[
        dict(test="^TestC13_Timelines$", quick=dict(checks=3, timeout=900, shrink="1s"), thorough=dict(checks=10, shards=8, timeout=3000, shrink="1s")),
        dict(test="^TestC13_StalledWriter$", quick=dict(timeout=300), thorough=dict(timeout=600)),
        dict(test="^TestC13_ZoneChange$", quick=dict(checks=3, timeout=900, shrink="1s"), thorough=dict(checks=40, shards=1, timeout=3000, shrink="1s")),
        dict(test="^TestC13_Edges$", quick=dict(checks=6, timeout=900, shrink="1s"), thorough=dict(checks=40, shards=1, timeout=3000, shrink="1s")),
    ],
)

PROPS["C19"] = dict(
    pkg="c19", level="fault_enumeration",
    technique="rapid-generated fault time-lines (directory renamed away/restored around real 1 s boundaries and writes) with a conservation oracle over the files after restoration; generated static I/O faults per appender and call path",
    level_text="Fault enumeration over generated placements: outages of the log directory (rename away / restore) are placed before, across and between real one-second boundaries while 1-4 writers write through the bare rolling appender or a Refresh-built logger; every call must return without panic, after restoration the files must hold every record exactly once, with one writer a write after the first boundary following restoration must be in a file created at/after it, no file may be named for a boundary that fell into the outage and was followed by a write inside it (creation is retried at the next boundary, not in mid-interval), and no call that began 1.5 s or more before the end of an outage may return only after it; a second generator aims 2-12 spinning goroutines at every boundary of time-lines whose outages cover most boundaries, so that the rotation decision is taken by several callers at once while file creation fails; static faults (closed, never opened, /dev/full, missing directory, failing/short console stream) are driven through Write/Append and log calls under a 10 s watchdog. Outages may leave a regular file at the directory's path; a companion rolling appender with a longer interval may share the directory (one time-line per batch is aligned so that the outage covers a boundary both share): its failed rotation must not keep the main appender from retrying at its own next boundary. One time-line per batch has a 3 s interval and a sparse writer; in half of the batches one goes through an asynchronous Block root logger that flooders keep saturated around every boundary. 3 s intervals with a deterministic mid-interval write; a rotation stalled past the next boundary must not restore its older interval. The RollingFile logger kind; outages that end with the directory link pointing somewhere new.",
    level_note="Fault placements are generated, not exhaustively enumerated (the space is continuous in time). Outage by rename(2); assumes the wall clock does not step. The retry clause is judged for single-writer time-lines only (with several writers the rotating goroutine's brief window is legitimate).",
    rule="generated fault time-lines, 6 per case in parallel; boundary-race time-lines (goroutines spinning into every boundary), one per case; static fault x path cases",
    steps=[
        dict(test="^TestC19_Outage$", quick=dict(checks=3, timeout=900, shrink="1s"), thorough=dict(checks=12, shards=8, timeout=3000, shrink="1s")),
        dict(test="^TestC19_Static$", quick=dict(checks=300, timeout=900), thorough=dict(checks=3000, shards=4, timeout=3000)),
        dict(test="^TestC19_StalledRotation$", quick=dict(checks=3, timeout=900, shrink="1s"), thorough=dict(checks=40, shards=2, timeout=3000, shrink="1s")),
        dict(test="^TestC19_BoundaryRace$", quick=dict(checks=6, timeout=900, shrink="1s"), thorough=dict(checks=40, shards=1, timeout=3000, shrink="1s")),
    ],
)

PROPS["C20"] = dict(
    pkg="c20", level="fault_enumeration",
    technique="rapid-generated crash points: a re-executed child process logs and acknowledges returned calls on a pipe, is SIGKILLed or exits at the K-th acknowledgement, and the parent checks every acknowledged line in the target",
    level_text="Fault enumeration over generated crash points: for each synchronous appender kind (File, RollingFile, Console on an inherited descriptor; via Logger with appender-level or logger-level layout and via the File/RollingFile/Console logger kinds), both layouts, 1-4 goroutines and N calls, the child is killed (SIGKILL) or exits (status 0/3) right after the K-th acknowledged call; every call acknowledged before death must have its complete self-validating line in the target exactly once. Rolling kinds are also run with 2-8 goroutines logging from 4 ms before to 25 ms after a real rotation boundary and the crash after the last call (returned calls reported in one write). Further kinds: two loggers with their own File appenders on one file; File / RollingFile appender values stopped and started again before the acknowledged calls. Raw writes through a named logger's handle with and without trailing line break; calls with a field whose encoding panics (a call that returns all the same owes its line). Kinds console+file and default-after-destroy. File kinds may begin with a transient write failure. The separate warn file as a crash target; 20 KB lines.",
    level_note="Crash points are sampled from 1..G*N, not all enumerated. Process-crash write-through only (no fsync / power-loss claim). Trusted: the acknowledgement pipe (one direct write(2) per returned call).",
    rule="generated crash points (and boundary-straddling runs of the rolling kinds), 8 children per case",
    steps=[
        dict(test="^TestC20_CrashPoints$", quick=dict(checks=40, timeout=900, shrink="5s"), thorough=dict(checks=250, shards=8, timeout=3000, shrink="5s")),
    ],
)

PROPS["C15"] = dict(
    pkg="c15", level="exploration",
    technique="grammar-based generation of configuration trees with a probe plugin and a resolved-value model; metamorphic re-rendering (key spelling, inline expressions, ${} indirection); single-fault injection; mutation-based totality search",
    level_text="Exploration over configurations: valid-by-construction configuration trees over every registered logger/appender/layout type and a Probe appender with one attribute of every injectable kind and one element of every shape are rendered three ways (two random renderings with camel/kebab/snake spelling, flat vs inline 'name!' expressions at any depth and ${} indirection, one plain) and must refresh, resolve to the declared values (configured, else default), route a test event to the referenced appenders/files/console and behave identically across renderings; configurations with exactly one injected fault must make Refresh return an error; randomly mutated configurations must make Refresh return (nil or error) without panic. Element lists reach two-digit indices; dangling references include names that only resemble an appender's. Recorder names with letters outside ASCII; application-registered rotation names (upper case included). Padded placeholders. Part of the probe plugin's fields sit in an embedded package-private base struct. Every buffer-full policy and none; configurations without any logger; logger names on both sides of root.",
    level_note="Trusted: the harness's resolved-value model and Probe plugin. Names of appenders/loggers are lower-case alphanumeric (a name is a key segment and is camel-cased); values with leading/trailing blanks and the literals [] {} <nil> are not generated as attribute values.",
    rule="generated configuration trees x renderings; single-fault injection; mutations",
    steps=[
        dict(test="^Test(Regress_C15|C15_Valid)$", quick=dict(checks=400, timeout=900), thorough=dict(checks=4000, shards=10, timeout=3000)),
        dict(test="^TestC15_Faults$", quick=dict(checks=600, timeout=900), thorough=dict(checks=6000, shards=4, timeout=3000)),
        dict(test="^TestC15_Mutations$", quick=dict(checks=800, timeout=900), thorough=dict(checks=8000, shards=6, timeout=3000)),
    ],
)
