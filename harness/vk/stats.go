// Package vk is the shared kit of the verification harness: run statistics
// (what the evidence files are made of), recording / gated appender plugins,
// console capture, watchdogs and small reference decoders.
package vk

import (
	"encoding/json"
	"fmt"
	"hash/fnv"
	"os"
	"path/filepath"
	"sort"
	"strconv"
	"strings"
	"sync"
	"testing"
	"time"
)

// Stats accumulates what a test process explored. One per process.
type stats struct {
	mu        sync.Mutex
	Evals     int64            `json:"evaluations"`
	NT        map[uint64]bool  `json:"-"`
	NTList    []uint64         `json:"nontrivial_hashes"`
	Classes   map[string]int64 `json:"classes"`
	Samples   []any            `json:"samples"`
	Excluded  int64            `json:"excluded_known"`
	Known     []string         `json:"known_seen"`
	Extra     map[string]any   `json:"extra"`
	Rules     []string         `json:"rules"`
	Exhaust   map[string]bool  `json:"exhaustive"`
	Assume    []string         `json:"assumptions"`
	Failed    bool             `json:"failed"`
	sampleCap int
}

var st = &stats{NT: map[uint64]bool{}, Classes: map[string]int64{}, Extra: map[string]any{}, Exhaust: map[string]bool{}, sampleCap: 8}

// Eval counts one property-body execution that reached its oracle.
func Eval() { st.mu.Lock(); st.Evals++; st.mu.Unlock() }

// EvalN counts n executions at once (enumerations).
func EvalN(n int64) { st.mu.Lock(); st.Evals += n; st.mu.Unlock() }

// Hash64 is the hash used for distinct counting.
func Hash64(s string) uint64 { h := fnv.New64a(); h.Write([]byte(s)); return h.Sum64() }

// NonTrivial records a case that is non-trivial by the property's rule; key identifies it.
func NonTrivial(key string) {
	h := Hash64(key)
	st.mu.Lock()
	st.NT[h] = true
	st.mu.Unlock()
}

// NonTrivialHash is NonTrivial for callers that hash themselves (hot loops).
func NonTrivialHash(h uint64) { st.mu.Lock(); st.NT[h] = true; st.mu.Unlock() }

// NonTrivialCount adds n synthetic distinct entries (exhaustive enumerations count instead of storing
// hundreds of millions of hashes): the ids are derived from label and index so shards do not collide.
var ntBulk = map[string]int64{}

func NonTrivialBulk(label string, n int64) {
	st.mu.Lock()
	ntBulk[label] += n
	st.mu.Unlock()
}

// Class bumps a histogram bucket.
func Class(name string) { st.mu.Lock(); st.Classes[name]++; st.mu.Unlock() }
func ClassN(name string, n int64) {
	st.mu.Lock()
	st.Classes[name] += n
	st.mu.Unlock()
}

// Sample keeps up to 8 rendered cases (first come; later ones replace pseudo-randomly by count).
func Sample(v any) {
	st.mu.Lock()
	defer st.mu.Unlock()
	if len(st.Samples) < st.sampleCap {
		st.Samples = append(st.Samples, v)
		return
	}
	// keep a spread: replace slot (evals mod cap) on powers of two of Evals
	e := st.Evals
	if e > 0 && e&(e-1) == 0 {
		st.Samples[int(e%int64(st.sampleCap))] = v
	}
}

func Excluded(sig string) {
	st.mu.Lock()
	st.Excluded++
	found := false
	for _, k := range st.Known {
		if k == sig {
			found = true
		}
	}
	if !found {
		st.Known = append(st.Known, sig)
	}
	st.mu.Unlock()
}

func Extra(k string, v any) { st.mu.Lock(); st.Extra[k] = v; st.mu.Unlock() }
func ExtraAdd(k string, n int64) {
	st.mu.Lock()
	cur, _ := st.Extra[k].(int64)
	st.Extra[k] = cur + n
	st.mu.Unlock()
}
func Rule(s string) {
	st.mu.Lock()
	for _, r := range st.Rules {
		if r == s {
			st.mu.Unlock()
			return
		}
	}
	st.Rules = append(st.Rules, s)
	st.mu.Unlock()
}
func Exhaustive(space string, ok bool) { st.mu.Lock(); st.Exhaust[space] = ok; st.mu.Unlock() }
func Assume(s string) {
	st.mu.Lock()
	for _, r := range st.Assume {
		if r == s {
			st.mu.Unlock()
			return
		}
	}
	st.Assume = append(st.Assume, s)
	st.mu.Unlock()
}

// Flush writes the statistics to $VERIF_STATS (if set).
func Flush(failed bool) {
	path := os.Getenv("VERIF_STATS")
	if path == "" {
		return
	}
	st.mu.Lock()
	defer st.mu.Unlock()
	st.Failed = failed
	st.NTList = st.NTList[:0]
	for h := range st.NT {
		st.NTList = append(st.NTList, h)
	}
	sort.Slice(st.NTList, func(i, j int) bool { return st.NTList[i] < st.NTList[j] })
	if len(ntBulk) > 0 {
		st.Extra["nontrivial_bulk"] = ntBulk
	}
	b, err := json.Marshal(st)
	if err != nil {
		b, _ = json.Marshal(map[string]any{"error": err.Error(), "evaluations": st.Evals})
	}
	_ = os.MkdirAll(filepath.Dir(path), 0o755)
	_ = os.WriteFile(path, b, 0o644)
}

// Main is the TestMain body shared by all check packages.
func Main(m *testing.M) {
	code := m.Run()
	Flush(code != 0)
	os.Exit(code)
}

// Tier returns "quick" or "thorough".
func Tier() string {
	if os.Getenv("VERIF_TIER") == "thorough" {
		return "thorough"
	}
	return "quick"
}
func Thorough() bool { return Tier() == "thorough" }

// Seed returns the per-process derived seed (driver passes VERIF_SEED already combined with the shard).
func Seed() int64 {
	n, err := strconv.ParseInt(os.Getenv("VERIF_SEED"), 10, 64)
	if err != nil {
		return 1
	}
	return n
}

// Shard returns (index, count) for enumerations split over processes.
func Shard() (int, int) {
	i, _ := strconv.Atoi(os.Getenv("VERIF_SHARD"))
	n, _ := strconv.Atoi(os.Getenv("VERIF_SHARDS"))
	if n <= 0 {
		return 0, 1
	}
	return i, n
}

// EnvInt reads an integer knob set by the driver.
func EnvInt(name string, def int) int {
	n, err := strconv.Atoi(os.Getenv(name))
	if err != nil {
		return def
	}
	return n
}

// SaveCase writes a human-readable failing case into $VERIF_REPLAY_DIR and returns the path.
func SaveCase(name string, v any) string {
	dir := os.Getenv("VERIF_REPLAY_DIR")
	if dir == "" {
		dir = os.TempDir()
	}
	_ = os.MkdirAll(dir, 0o755)
	b, err := json.MarshalIndent(v, "", " ")
	if err != nil {
		b = []byte(fmt.Sprintf("%q", fmt.Sprint(v)))
	}
	// the name is a pure function of the content: rapid only shrinks failures whose message is
	// identical when the same input is re-run, and messages mention this path
	p := filepath.Join(dir, fmt.Sprintf("%s-%016x.case.json", name, Hash64(string(b))))
	_ = os.WriteFile(p, b, 0o644)
	return p
}

// ReplayCase returns the path of a stored case to re-run (non-rapid tests), or "".
func ReplayCase() string { return os.Getenv("VERIF_REPLAY_CASE") }

// LoadCase decodes a stored case.
func LoadCase(path string, v any) error {
	b, err := os.ReadFile(path)
	if err != nil {
		return err
	}
	return json.Unmarshal(b, v)
}

// Within runs f on its own goroutine and reports whether it finished within d.
// A panic in f is captured and returned.
func Within(d time.Duration, f func()) (done bool, panicked any) {
	ch := make(chan any, 1)
	go func() {
		defer func() { ch <- recover() }()
		f()
	}()
	select {
	case p := <-ch:
		return true, p
	case <-time.After(d):
		return false, nil
	}
}

// Catch runs f and returns its panic value (nil if none).
func Catch(f func()) (p any) {
	defer func() { p = recover() }()
	f()
	return nil
}

// TB is the subset of testing.TB that both *testing.T and *rapid.T provide.
type TB interface {
	Fatalf(format string, args ...any)
	Logf(format string, args ...any)
	Helper()
}

// Scratch returns a fresh directory under $VERIF_SCRATCH (created by the driver, removed after the run).
func Scratch(prefix string) string {
	base := os.Getenv("VERIF_SCRATCH")
	if base == "" {
		base = os.TempDir()
	}
	_ = os.MkdirAll(base, 0o755)
	d, err := os.MkdirTemp(base, prefix)
	if err != nil {
		panic(err)
	}
	return d
}

// Known reports whether sig is listed as a known (unfixed) finding for this run.
func Known(sig string) bool {
	for _, k := range strings.Split(os.Getenv("VERIF_KNOWN"), ",") {
		if k != "" && k == sig {
			return true
		}
	}
	return false
}

// HardFail reports a violation that must not be handed to rapid's shrinker (a hung call leaves
// goroutines behind and every shrink attempt would wait for the watchdog again): it stores the
// case, flushes the statistics and exits the test process with status 1.
func HardFail(name string, c any, format string, args ...any) {
	p := SaveCase(name, c)
	fmt.Printf("--- FAIL: %s\n    VERIF-VIOLATION %s (case %s)\n", name, fmt.Sprintf(format, args...), p)
	Flush(true)
	os.Exit(1)
}
