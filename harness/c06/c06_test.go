// C06 - async logger keeps per-producer order and honours its overflow policy.
//
// Same controlled-schedule driver as C04 (vk/asyncsm.go); here the comparison is on *which* items
// survive and in *what order*, and on the blocking behaviour of the log call itself.
package c06

import (
	"context"
	"fmt"
	"os"
	"path/filepath"
	"strings"
	"sync"
	"sync/atomic"
	"testing"
	"time"

	"github.com/go-spring/log"
	"pgregory.net/rapid"

	"verifharness/vk"
)

const rule = "A: histories over {event, raw write, step} from a generated occupancy (empty..full) for every policy, plus (thorough) every history of length <= 6 from a full buffer; B: randomised multi-producer schedules; non-trivial = the history overflows the buffer at least once, i.e. the three policies keep different survivors; distinct by (policy, history)"

func init() {
	vk.InitAsyncNames("_c06_t", "c06h")
	c06Handle = log.GetLogger("c06h") // the same handle object (a name yields one handle)
}

func actionString(a []vk.AsyncAction) string {
	s := ""
	for _, x := range a {
		s += x.K[:1]
	}
	return s
}

func check(t vk.TB, setup vk.AsyncSetup, actions []vk.AsyncAction) {
	res := vk.RunAsyncHistory(setup, "_c06_t", "c06h", actions)
	vk.Eval()
	vk.Class("policy:" + setup.Policy)
	if res.PolicyVisible {
		vk.Class("policy-observable")
		vk.NonTrivial(setup.String() + actionString(actions))
	}
	if res.BlockWaits > 0 {
		vk.Class("block-wait")
	}
	desc := fmt.Sprintf("setup: %s actions: %s", setup, actionString(actions))
	if res.Hang != "" {
		vk.HardFail("c06-hang", map[string]any{"setup": setup, "actions": actionString(actions)}, "C06: %s; %s", res.Hang, desc)
	}
	if res.Violation != "" {
		t.Fatalf("VERIF-VIOLATION C06: %s\n%s", res.Violation, desc)
	}
	if len(res.Delivered) != len(res.ExpDelivered) {
		t.Fatalf("VERIF-VIOLATION C06: delivered %d items, the %s queue model delivers %d\n got: %v\nwant: %v\n%s", len(res.Delivered), setup.Policy, len(res.ExpDelivered), tail(res.Delivered), tail(res.ExpDelivered), desc)
	}
	for i := range res.ExpDelivered {
		if res.Delivered[i] != res.ExpDelivered[i] {
			t.Fatalf("VERIF-VIOLATION C06: delivery #%d is item id=%d, the %s queue model delivers id=%d there\n got: %v\nwant: %v\n%s", i, res.Delivered[i], setup.Policy, res.ExpDelivered[i], tail(res.Delivered), tail(res.ExpDelivered), desc)
		}
	}
}

func tail(a []int64) []int64 {
	if len(a) > 12 {
		return a[len(a)-12:]
	}
	return a
}

func TestC06_Controlled(t *testing.T) {
	vk.Rule(rule)
	rapid.Check(t, func(t *rapid.T) {
		setup := vk.AsyncSetup{
			Policy:     rapid.SampledFrom([]string{"DiscardOldest", "Discard", "Block"}).Draw(t, "policy"),
			Size:       rapid.SampledFrom([]int{100, 100, 101, 127, 256, 200, 1000, 399}).Draw(t, "size"),
			ViaRefresh: rapid.SampledFrom([]bool{false, false, true}).Draw(t, "viaRefresh"),
			Layout:     rapid.SampledFrom([]bool{false, false, true}).Draw(t, "layout"),
		}
		if !setup.ViaRefresh {
			setup.Restart = rapid.IntRange(0, 2).Draw(t, "restart") == 0
			setup.FromNone = rapid.IntRange(0, 2).Draw(t, "fromNone") == 0
			setup.RefsOrder = rapid.IntRange(0, 2).Draw(t, "refsOrder")
		}
		switch rapid.IntRange(0, 2).Draw(t, "occ") {
		case 0:
			setup.Prefill = setup.Size + 1
		case 1:
			setup.Prefill = setup.Size + 1 - rapid.IntRange(0, 4).Draw(t, "nearFull")
		default:
			setup.Prefill = rapid.IntRange(0, setup.Size+1).Draw(t, "any")
		}
		n := rapid.IntRange(1, 40).Draw(t, "nactions")
		var actions []vk.AsyncAction
		for i := 0; i < n; i++ {
			actions = append(actions, vk.AsyncAction{K: rapid.SampledFrom([]string{"ev", "raw", "step", "ev", "raw", "step", "ev", "dis", "raw0", "evl", "rawL", "evP", "ev0", "evP"}).Draw(t, "a")})
		}
		vk.Sample(map[string]any{"setup": setup.String(), "actions": actionString(actions)})
		check(t, setup, actions)
	})
}

// TestC06_Exhaustive: every history of length <= L over {event, raw, step} from a full buffer, for each policy.
func TestC06_Exhaustive(t *testing.T) {
	vk.Rule(rule)
	L := 4
	if vk.Thorough() {
		L = 6
	}
	shard, shards := vk.Shard()
	kinds := []string{"ev", "raw", "step"}
	var total int64
	idx := 0
	for _, pol := range []string{"DiscardOldest", "Discard", "Block"} {
		for n := 1; n <= L; n++ {
			cnt := 1
			for i := 0; i < n; i++ {
				cnt *= 3
			}
			for code := 0; code < cnt; code++ {
				idx++
				if idx%shards != shard {
					continue
				}
				var actions []vk.AsyncAction
				c := code
				for i := 0; i < n; i++ {
					actions = append(actions, vk.AsyncAction{K: kinds[c%3]})
					c /= 3
				}
				check(t, vk.AsyncSetup{Policy: pol, Size: 100, Prefill: 101}, actions)
				total++
			}
		}
	}
	space := fmt.Sprintf("all histories of length <= %d over {event, raw write, step} from a full buffer (capacity 100 + in-flight), each policy", L)
	vk.Exhaustive(space, true)
	vk.Sample(map[string]any{"space": space, "histories": total})
}

func TestC06_RandomOrder(t *testing.T) {
	vk.Rule(rule)
	vk.Assume("randomised multi-producer schedules are sampled by the Go scheduler")
	rapid.Check(t, func(t *rapid.T) {
		s := vk.AsyncRandSetup{
			Policy:      rapid.SampledFrom([]string{"Block", "Discard", "DiscardOldest"}).Draw(t, "policy"),
			Size:        rapid.SampledFrom([]int{100, 100, 128, 1000}).Draw(t, "size"),
			Producers:   rapid.IntRange(1, 32).Draw(t, "producers"),
			PerProducer: rapid.IntRange(1, 400).Draw(t, "per"),
			Speed:       rapid.SampledFrom([]string{"slow", "stall", "delay", "fast"}).Draw(t, "speed"),
			Layout:      rapid.SampledFrom([]bool{false, false, true}).Draw(t, "layout"),
		}
		res := vk.RunAsyncRandom(s)
		vk.Eval()
		vk.Class("random:" + s.Policy)
		if res.Counter > 0 || s.Producers >= 2 {
			vk.NonTrivial("B:" + s.String())
		}
		if res.Hang != "" {
			vk.HardFail("c06-hang", map[string]any{"setup": s}, "C06: %s; setup: %s", res.Hang, s)
		}
		if res.Violation != "" {
			t.Fatalf("VERIF-VIOLATION C06: %s\nsetup: %s", res.Violation, s)
		}
		last := map[int64]int64{}
		for _, id := range res.Delivered {
			p, i := id/1_000_000, id%1_000_000
			if prev, ok := last[p]; ok && i <= prev {
				t.Fatalf("VERIF-VIOLATION C06: producer %d's item #%d was delivered after its item #%d (submission order broken)\nsetup: %s", p, i, prev, s)
			}
			last[p] = i
		}
		if s.Policy == "Block" && len(res.Delivered) != res.SubmittedEnabled {
			t.Fatalf("VERIF-VIOLATION C06: Block policy delivered %d of %d submitted items\nsetup: %s", len(res.Delivered), res.SubmittedEnabled, s)
		}
	})
}

// TestC06_ConcurrentDiscard: several producers overflow a full buffer at the same time while the
// worker stays parked in a gate that is never released during the submission phase. Under the two
// discard policies every log call must return (definitive: nothing the call may legitimately wait
// for exists), whatever the interleaving of the producers among themselves.
func TestC06_ConcurrentDiscard(t *testing.T) {
	vk.Rule(rule)
	rapid.Check(t, func(t *rapid.T) {
		policy := rapid.SampledFrom([]string{"DiscardOldest", "Discard"}).Draw(t, "policy")
		producers := rapid.IntRange(2, 8).Draw(t, "producers")
		per := rapid.IntRange(200, 3000).Draw(t, "per")
		vk.ResetRecs()
		gate := vk.NewGate()
		vk.SetBehavior("g", gate)
		g := &vk.RecAppender{AppenderBase: log.AppenderBase{Name: "g"}}
		_ = g.Start()
		all := log.LevelRange{MinLevel: log.NoneLevel, MaxLevel: log.MaxLevel}
		pol := map[string]log.BufferFullPolicy{"Discard": log.BufferFullPolicyDiscard, "DiscardOldest": log.BufferFullPolicyDiscardOldest}[policy]
		l := &log.AsyncLogger{LoggerBase: log.LoggerBase{Name: "cd", Level: all}, AppenderRefs: log.AppenderRefs{AppenderRefs: []*log.AppenderRef{{Appender: g, Level: all}}}, BufferSize: 100, BufferFullPolicy: pol}
		if err := l.Start(); err != nil {
			t.Fatalf("VERIF-INCONCLUSIVE C06: %v", err)
		}
		done, p := vk.Within(20*time.Second, func() {
			var wg sync.WaitGroup
			for pr := 0; pr < producers; pr++ {
				wg.Add(1)
				go func() {
					defer wg.Done()
					for i := 0; i < per; i++ {
						id := int64(pr)*1_000_000 + int64(i)
						if i%3 == 0 {
							l.Write([]byte(fmt.Sprintf("id=%d\n", id)))
						} else {
							e := log.GetEvent()
							e.Level, e.Time, e.Tag, e.Fields = log.InfoLevel, time.Unix(0, 0), "_c06", []log.Field{log.Int("id", id)}
							l.Append(e)
						}
					}
				}()
			}
			wg.Wait()
		})
		vk.Eval()
		vk.Class("concurrent-discard:" + policy)
		vk.NonTrivial(fmt.Sprintf("concurrent-discard/%s/%d/%d", policy, producers, per))
		if p != nil {
			t.Fatalf("VERIF-VIOLATION C06: a log call panicked: %v", p)
		}
		if !done {
			vk.HardFail("c06-hang", map[string]any{"policy": policy, "producers": producers, "per": per},
				"C06: policy %s: log calls of %d concurrent producers did not return within 20 s while the appender was stalled (a log call waited for the appender)", policy, producers)
		}
		close(gate.Release)
		if d, _ := vk.Within(30*time.Second, l.Stop); !d {
			vk.HardFail("c06-hang", map[string]any{"policy": policy}, "C06: Stop did not return after the gate opened")
		}
		last := map[int64]int64{}
		for _, it := range g.Items() {
			pr, i := it.ID/1_000_000, it.ID%1_000_000
			if prev, ok := last[pr]; ok && i <= prev {
				t.Fatalf("VERIF-VIOLATION C06: producer %d's item #%d delivered after its item #%d (policy %s)", pr, i, prev, policy)
			}
			last[pr] = i
		}
		if policy == "DiscardOldest" {
			// the arriving item is always kept and only the oldest buffered ones go: what survives of
			// one producer is a gap-free run ending with its last item (or nothing, if later arrivals
			// of the others pushed all of it out). The very first delivery is the item the worker
			// held while the gate was shut; it left the buffer early and is not part of the run.
			kept := map[int64][]int64{}
			for k, it := range g.Items() {
				if k == 0 {
					continue
				}
				kept[it.ID/1_000_000] = append(kept[it.ID/1_000_000], it.ID%1_000_000)
			}
			for pr, is := range kept {
				for j := 1; j < len(is); j++ {
					if is[j] != is[j-1]+1 {
						t.Fatalf("VERIF-VIOLATION C06: DiscardOldest with %d producers: producer %d's item #%d was dropped although its older item #%d stayed buffered (the arriving item must be kept, the oldest dropped)", producers, pr, is[j-1]+1, is[j-1])
					}
				}
				if is[len(is)-1] != int64(per-1) {
					t.Fatalf("VERIF-VIOLATION C06: DiscardOldest with %d producers: producer %d's last item #%d was dropped although its older item #%d stayed buffered (the arriving item must be kept, the oldest dropped)", producers, pr, per-1, is[len(is)-1])
				}
			}
		}
	})
}

// TestC06_BlockLongStall: Block waits for space - however long the appender makes no progress. The
// worker is parked in a gated appender for several seconds (4 s quick, 15 s thorough) while 1-3
// producers submit more than buffer + 1 items; nobody may have finished before the gate opens, and
// afterwards every item is delivered exactly once, each producer's in submission order.
func TestC06_BlockLongStall(t *testing.T) {
	vk.Rule(rule)
	hold := 4 * time.Second
	if vk.Thorough() {
		hold = 15 * time.Second
	}
	rapid.Check(t, func(t *rapid.T) {
		producers := rapid.IntRange(1, 3).Draw(t, "producers")
		per := rapid.IntRange(102, 160).Draw(t, "per")
		size := rapid.SampledFrom([]int{100, 101, 128}).Draw(t, "bufferSize")
		if producers == 1 && per <= size+1 {
			per = size + 2 + per%20
		}
		vk.ResetRecs()
		gate := vk.NewGate()
		vk.SetBehavior("g", gate)
		g := &vk.RecAppender{AppenderBase: log.AppenderBase{Name: "g"}}
		_ = g.Start()
		all := log.LevelRange{MinLevel: log.NoneLevel, MaxLevel: log.MaxLevel}
		l := &log.AsyncLogger{LoggerBase: log.LoggerBase{Name: "bl", Level: all}, AppenderRefs: log.AppenderRefs{AppenderRefs: []*log.AppenderRef{{Appender: g, Level: all}}}, BufferSize: size, BufferFullPolicy: log.BufferFullPolicyBlock}
		if err := l.Start(); err != nil {
			t.Fatalf("VERIF-INCONCLUSIVE C06: %v", err)
		}
		var finished atomic.Int32
		var wg sync.WaitGroup
		for pr := 0; pr < producers; pr++ {
			wg.Add(1)
			go func() {
				defer wg.Done()
				defer func() { _ = recover() }()
				for i := 0; i < per; i++ {
					id := int64(pr)*1_000_000 + int64(i)
					if i%3 == 0 {
						l.Write([]byte(fmt.Sprintf("id=%d\n", id)))
					} else {
						e := log.GetEvent()
						e.Level, e.Time, e.Tag, e.Fields = log.InfoLevel, time.Unix(0, 0), "_c06", []log.Field{log.Int("id", id)}
						l.Append(e)
					}
				}
				finished.Add(1)
			}()
		}
		time.Sleep(hold)
		early := finished.Load()
		close(gate.Release)
		doneCh := make(chan struct{})
		go func() { wg.Wait(); close(doneCh) }()
		select {
		case <-doneCh:
		case <-time.After(30 * time.Second):
			vk.HardFail("c06-hang", map[string]any{"policy": "Block", "producers": producers, "per": per}, "C06: Block: the producers did not finish within 30 s after the appender was released")
		}
		if d, _ := vk.Within(30*time.Second, l.Stop); !d {
			vk.HardFail("c06-hang", map[string]any{"policy": "Block"}, "C06: Stop did not return after the gate opened")
		}
		vk.Eval()
		vk.Class("block-long-stall")
		vk.NonTrivial(fmt.Sprintf("block-long-stall/%d/%d/%d", producers, per, size))
		if early == int32(producers) {
			t.Fatalf("VERIF-VIOLATION C06: Block with a buffer of %d: %d producer(s) finished submitting %d items each while the appender had taken one item and was stalled for %v - a call must have waited for space", size, producers, per, hold)
		}
		last := map[int64]int64{}
		count := 0
		for _, it := range g.Items() {
			pr, i := it.ID/1_000_000, it.ID%1_000_000
			prev, ok := last[pr]
			if !ok {
				prev = -1
			}
			if i != prev+1 {
				t.Fatalf("VERIF-VIOLATION C06: Block (buffer %d, appender stalled for %v): producer %d's item #%d was delivered after its item #%d - under Block nothing is dropped or reordered, the call waits for space", size, hold, pr, i, prev)
			}
			last[pr] = i
			count++
		}
		if count != producers*per {
			t.Fatalf("VERIF-VIOLATION C06: Block (buffer %d, appender stalled for %v): %d items submitted, %d delivered after Stop", size, hold, producers*per, count)
		}
	})
}

// TestC06_CallDuringStop: under the two discard policies a log call returns without waiting for the
// appender - also a call that arrives while another goroutine is inside Stop, which waits for the
// appender to take what is buffered. The appender stays stalled until the call has returned (the
// buffer has room, so the policy's full-buffer path and the stop marker do not meet).
func TestC06_CallDuringStop(t *testing.T) {
	vk.Rule(rule)
	rapid.Check(t, func(t *rapid.T) {
		policy := rapid.SampledFrom([]string{"DiscardOldest", "Discard"}).Draw(t, "policy")
		prefill := rapid.IntRange(1, 20).Draw(t, "buffered")
		raw := rapid.Bool().Draw(t, "rawCall")
		big := rapid.Bool().Draw(t, "bigPayload")
		vk.ResetRecs()
		gate := vk.NewGate()
		vk.SetBehavior("g", gate)
		g := &vk.RecAppender{AppenderBase: log.AppenderBase{Name: "g"}}
		_ = g.Start()
		all := log.LevelRange{MinLevel: log.NoneLevel, MaxLevel: log.MaxLevel}
		pol := map[string]log.BufferFullPolicy{"Discard": log.BufferFullPolicyDiscard, "DiscardOldest": log.BufferFullPolicyDiscardOldest}[policy]
		l := &log.AsyncLogger{LoggerBase: log.LoggerBase{Name: "cs", Level: all}, AppenderRefs: log.AppenderRefs{AppenderRefs: []*log.AppenderRef{{Appender: g, Level: all}}}, BufferSize: 100, BufferFullPolicy: pol}
		if err := l.Start(); err != nil {
			t.Fatalf("VERIF-INCONCLUSIVE C06: %v", err)
		}
		for i := 0; i < prefill; i++ {
			l.Write([]byte(fmt.Sprintf("id=%d\n", i)))
		}
		<-gate.Entered // the worker is parked inside the appender with the first item
		stopped := make(chan any, 1)
		go func() { stopped <- vk.Catch(l.Stop) }()
		time.Sleep(time.Duration(rapid.SampledFrom([]int{1, 5, 20}).Draw(t, "afterMS")) * time.Millisecond) // Stop is now waiting for the worker
		pad := ""
		if big {
			pad = strings.Repeat("P", 30000)
		}
		returned, p := vk.Within(10*time.Second, func() {
			if raw {
				l.Write([]byte("id=777 " + pad + "\n"))
			} else {
				e := log.GetEvent()
				e.Level, e.Time, e.Tag, e.Fields = log.InfoLevel, time.Unix(0, 0), "_c06", []log.Field{log.Int("id", 777), log.String("pad", pad)}
				l.Append(e)
			}
		})
		vk.Eval()
		vk.Class("call-during-stop:" + policy)
		vk.NonTrivial(fmt.Sprintf("call-during-stop/%s/%d/%v/%v", policy, prefill, raw, big))
		close(gate.Release)
		select {
		case <-stopped:
		case <-time.After(30 * time.Second):
			vk.HardFail("c06-hang", map[string]any{"policy": policy}, "C06: Stop did not return after the appender was released")
		}
		if p != nil {
			t.Fatalf("VERIF-VIOLATION C06: a log call issued while Stop was waiting for the appender panicked: %v", p)
		}
		if !returned {
			vk.HardFail("c06-hang", map[string]any{"policy": policy, "buffered": prefill, "raw": raw, "big": big},
				"C06: policy %s: a log call issued while another goroutine was inside Stop did not return while the appender stayed stalled (it waited for the appender)", policy)
		}
	})
}

// GateLayout is a harness layout plugin whose ToBytes parks until its gate is opened: it stalls
// the worker of loggers that own their appenders (rolling-file logger), where no harness appender
// can be placed.
type GateLayout struct {
	log.TextLayout
}

var (
	layoutGate    chan struct{}
	layoutEntered chan struct{}
)

func (g *GateLayout) ToBytes(e *log.Event) []byte {
	select {
	case layoutEntered <- struct{}{}:
	default:
	}
	<-layoutGate
	return g.TextLayout.ToBytes(e)
}

func init() { log.RegisterPlugin[GateLayout]("GateLayout", log.PluginTypeLayout) }

var tagRoll = log.RegisterTag("_c06_roll")

// TestC06_RollingAsyncPolicy: the overflow policy configured on a rolling-file logger in async mode
// must be the policy of its buffer: with a discard policy the log call returns although the worker
// is stalled (here: inside the logger-level layout) and the buffer is full.
func TestC06_RollingAsyncPolicy(t *testing.T) {
	vk.Rule(rule)
	base := vk.Scratch("c06r")
	rapid.Check(t, func(t *rapid.T) {
		policy := rapid.SampledFrom([]string{"Discard", "DiscardOldest", "default", "Block"}).Draw(t, "policy")
		n := rapid.IntRange(150, 600).Draw(t, "events")
		separate := rapid.Bool().Draw(t, "separate")
		log.Destroy()
		layoutGate = make(chan struct{})
		layoutEntered = make(chan struct{}, 1)
		m := map[string]string{"enableCaller": "false", "appender.unused.type": "Discard",
			"logger.c06h.type": "RollingFile", "logger.c06h.tags": "_c06_roll,_c06_t", "logger.c06h.fileDir": base, "logger.c06h.fileName": "r.log", "logger.c06h.rotation": "h",
			"logger.c06h.async": "true", "logger.c06h.bufferSize": "100", "logger.c06h.separate": fmt.Sprint(separate), "logger.c06h.layout.type": "GateLayout"}
		if policy != "default" {
			m["logger.c06h.bufferFullPolicy"] = policy // the declared default is Discard
		}
		if err := log.Refresh(m); err != nil {
			t.Fatalf("VERIF-INCONCLUSIVE C06: %v", err)
		}
		if policy == "Block" {
			// an explicitly configured Block is Block: the calls wait for the stalled worker instead
			// of dropping anything, so the harness lets the worker go a little later
			go func() {
				select {
				case <-layoutEntered:
				case <-time.After(2 * time.Second):
				}
				time.Sleep(time.Duration(50+n%200) * time.Millisecond)
				close(layoutGate)
			}()
		}
		done, p := vk.Within(20*time.Second, func() {
			for i := 0; i < n; i++ {
				if i%4 == 3 {
					// raw writes of the same producer go through the same queue as its events
					_, _ = asyncHandleWrite([]byte(fmt.Sprintf("id=%d\n", i)))
				} else {
					log.Warn(context.Background(), tagRoll, log.Int("id", i))
				}
			}
		})
		vk.Eval()
		vk.Class("rolling-async-policy:" + policy)
		vk.NonTrivial(fmt.Sprintf("rolling-async/%s/%d/%v", policy, n, separate))
		if p != nil {
			if policy != "Block" {
				close(layoutGate)
			}
			t.Fatalf("VERIF-VIOLATION C06: log call panicked: %v", p)
		}
		if !done {
			if policy == "Block" {
				vk.HardFail("c06-hang", map[string]any{"policy": policy, "events": n},
					"C06: rolling-file logger (async, bufferFullPolicy=Block): %d log calls did not return within 20 s although the worker was released", n)
			}
			vk.HardFail("c06-hang", map[string]any{"policy": policy, "events": n},
				"C06: rolling-file logger (async, bufferFullPolicy=%s): %d log calls did not return within 20 s while the worker was stalled - the call waited for the appender although a discard policy is configured", policy, n)
		}
		if policy != "Block" {
			close(layoutGate)
		}
		if d, _ := vk.Within(30*time.Second, log.Destroy); !d {
			vk.HardFail("c06-hang", map[string]any{"policy": policy}, "C06: Destroy did not return after the gate opened")
		}
		// per-producer order: whatever survived the policy appears in submission order in each file
		ents, _ := os.ReadDir(base)
		seen := map[int64]bool{} // a raw write reaches both files of a separate=true logger: count distinct items
		defer func() {
			for _, e := range ents {
				_ = os.Remove(filepath.Join(base, e.Name()))
			}
		}()
		for _, e := range ents {
			b, _ := os.ReadFile(filepath.Join(base, e.Name()))
			last := int64(-1)
			for _, ln := range strings.Split(string(b), "\n") {
				if ln == "" {
					continue
				}
				id := vk.IDFromLine([]byte(ln))
				if id <= last {
					t.Fatalf("VERIF-VIOLATION C06: rolling-file logger (async, %s): in %s item id=%d comes after id=%d although one goroutine submitted them in order (events and raw writes alike)", policy, e.Name(), id, last)
				}
				last = id
				seen[id] = true
			}
		}
		if total := len(seen); policy == "Block" && total != n {
			t.Fatalf("VERIF-VIOLATION C06: rolling-file logger (async, bufferFullPolicy=Block, buffer 100): %d items were submitted while the worker was stalled, the files hold %d of them after Destroy - under Block nothing is dropped, the call waits for space", n, total)
		}
	})
}

func asyncHandleWrite(b []byte) (int, error) { return c06Handle.Write(b) }

var c06Handle *log.LoggerWrapper
