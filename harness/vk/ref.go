package vk

// Independent reference decoders. None of this shares code with the library under test and
// none of it uses unicode/utf8's decoder: well-formedness follows RFC 3629 table 3-7 directly.

// WellFormedLen returns the length (2..4) of the well-formed multi-byte UTF-8 sequence starting
// at s[0] (s[0] >= 0x80), or 0 if there is none. The scalar value is returned as r.
func WellFormedLen(s []byte) (n int, r rune) {
	if len(s) == 0 {
		return 0, 0
	}
	b0 := s[0]
	cont := func(b byte, lo, hi byte) bool { return b >= lo && b <= hi }
	switch {
	case b0 >= 0xC2 && b0 <= 0xDF:
		if len(s) >= 2 && cont(s[1], 0x80, 0xBF) {
			return 2, rune(b0&0x1F)<<6 | rune(s[1]&0x3F)
		}
	case b0 >= 0xE0 && b0 <= 0xEF:
		lo, hi := byte(0x80), byte(0xBF)
		if b0 == 0xE0 {
			lo = 0xA0
		} else if b0 == 0xED {
			hi = 0x9F
		}
		if len(s) >= 3 && cont(s[1], lo, hi) && cont(s[2], 0x80, 0xBF) {
			return 3, rune(b0&0x0F)<<12 | rune(s[1]&0x3F)<<6 | rune(s[2]&0x3F)
		}
	case b0 >= 0xF0 && b0 <= 0xF4:
		lo, hi := byte(0x80), byte(0xBF)
		if b0 == 0xF0 {
			lo = 0x90
		} else if b0 == 0xF4 {
			hi = 0x8F
		}
		if len(s) >= 4 && cont(s[1], lo, hi) && cont(s[2], 0x80, 0xBF) && cont(s[3], 0x80, 0xBF) {
			return 4, rune(b0&0x07)<<18 | rune(s[1]&0x3F)<<12 | rune(s[2]&0x3F)<<6 | rune(s[3]&0x3F)
		}
	}
	return 0, 0
}

// AppendRune appends the UTF-8 encoding of a scalar value (own encoder).
func AppendRune(dst []byte, r rune) []byte {
	switch {
	case r < 0x80:
		return append(dst, byte(r))
	case r < 0x800:
		return append(dst, 0xC0|byte(r>>6), 0x80|byte(r)&0x3F)
	case r < 0x10000:
		return append(dst, 0xE0|byte(r>>12), 0x80|byte(r>>6)&0x3F, 0x80|byte(r)&0x3F)
	default:
		return append(dst, 0xF0|byte(r>>18), 0x80|byte(r>>12)&0x3F, 0x80|byte(r>>6)&0x3F, 0x80|byte(r)&0x3F)
	}
}

// Sanitize appends to dst the input with every byte that is not part of a well-formed UTF-8
// sequence replaced by one U+FFFD (EF BF BD). This is what a logged string must decode to.
// needs reports whether the input contained a byte that needs escaping or replacement.
func Sanitize(dst, in []byte) (out []byte, needs bool) {
	for i := 0; i < len(in); {
		b := in[i]
		if b < 0x80 {
			if b < 0x20 || b == '"' || b == '\\' {
				needs = true
			}
			dst = append(dst, b)
			i++
			continue
		}
		if n, _ := WellFormedLen(in[i:]); n > 0 {
			dst = append(dst, in[i:i+n]...)
			i += n
			continue
		}
		needs = true
		dst = append(dst, 0xEF, 0xBF, 0xBD)
		i++
	}
	return dst, needs
}

// SanitizeString is Sanitize for strings.
func SanitizeString(s string) string {
	out, _ := Sanitize(nil, []byte(s))
	return string(out)
}

// JSON string body scanner error codes.
const (
	StrOK = iota
	StrRawControl
	StrRawQuote
	StrDanglingBackslash
	StrBadEscape
	StrBadHex
	StrIllFormedUTF8
	StrLoneSurrogate
)

var strErrNames = []string{"ok", "raw control byte", "unescaped double quote", "dangling backslash",
	"unknown escape", "bad \\u hex digits", "ill-formed UTF-8 in output", "lone surrogate escape"}

func StrErrName(c int) string { return strErrNames[c] }

func hexv(b byte) int {
	switch {
	case b >= '0' && b <= '9':
		return int(b - '0')
	case b >= 'a' && b <= 'f':
		return int(b-'a') + 10
	case b >= 'A' && b <= 'F':
		return int(b-'A') + 10
	}
	return -1
}

// DecodeJSONStringBody decodes the text between the quotes of a JSON string literal according to
// RFC 8259 section 7, appending the decoded scalar values as UTF-8 to dst. body must not include
// the quotes. It rejects raw control bytes, raw quotes, dangling or unknown escapes and ill-formed
// UTF-8. A lone surrogate escape is rejected too (the escaper has no reason to emit one).
func DecodeJSONStringBody(dst, body []byte) ([]byte, int) {
	for i := 0; i < len(body); {
		b := body[i]
		switch {
		case b < 0x20:
			return dst, StrRawControl
		case b == '"':
			return dst, StrRawQuote
		case b == '\\':
			if i+1 >= len(body) {
				return dst, StrDanglingBackslash
			}
			e := body[i+1]
			switch e {
			case '"', '\\', '/':
				dst = append(dst, e)
				i += 2
			case 'b':
				dst = append(dst, 8)
				i += 2
			case 'f':
				dst = append(dst, 12)
				i += 2
			case 'n':
				dst = append(dst, 10)
				i += 2
			case 'r':
				dst = append(dst, 13)
				i += 2
			case 't':
				dst = append(dst, 9)
				i += 2
			case 'u':
				if i+6 > len(body) {
					return dst, StrBadHex
				}
				v := 0
				for k := 2; k < 6; k++ {
					h := hexv(body[i+k])
					if h < 0 {
						return dst, StrBadHex
					}
					v = v<<4 | h
				}
				i += 6
				if v >= 0xD800 && v <= 0xDBFF {
					// need a following low surrogate
					if i+6 <= len(body) && body[i] == '\\' && body[i+1] == 'u' {
						w := 0
						ok := true
						for k := 2; k < 6; k++ {
							h := hexv(body[i+k])
							if h < 0 {
								ok = false
								break
							}
							w = w<<4 | h
						}
						if ok && w >= 0xDC00 && w <= 0xDFFF {
							i += 6
							dst = AppendRune(dst, rune(0x10000+(v-0xD800)<<10+(w-0xDC00)))
							continue
						}
					}
					return dst, StrLoneSurrogate
				}
				if v >= 0xDC00 && v <= 0xDFFF {
					return dst, StrLoneSurrogate
				}
				dst = AppendRune(dst, rune(v))
			default:
				return dst, StrBadEscape
			}
		case b < 0x80:
			dst = append(dst, b)
			i++
		default:
			n, _ := WellFormedLen(body[i:])
			if n == 0 {
				return dst, StrIllFormedUTF8
			}
			dst = append(dst, body[i:i+n]...)
			i += n
		}
	}
	return dst, StrOK
}
