// C08 - text layout: one line, fixed header, key=value tokens identical to the JSON tokens.
//
// Differential oracle: the same generated event is formatted by JSONLayout and TextLayout (same
// width); the JSON line (validated independently by C07) is split into raw member tokens and the
// expected text line is assembled from them plus an independently computed header.
package c08

import (
	"bytes"
	"context"
	"fmt"
	"os"
	"runtime"
	"strconv"
	"strings"
	"testing"
	"time"

	"github.com/go-spring/log"
	"pgregory.net/rapid"

	"verifharness/vk"
)

const rule = "the C07 event generator plus widths W in -5..200 (0,1,2,3 over-weighted), file names from empty to 300 bytes, all levels, timestamps over years 1..9999 in zones -14h..+14h; non-trivial = a nested container or reflected value directly after a scalar/empty container at top level, or len(file:line) > W; distinct by rendered event description"

var levels = []log.Level{log.NoneLevel, log.TraceLevel, log.DebugLevel, log.InfoLevel, log.WarnLevel, log.ErrorLevel, log.PanicLevel, log.FatalLevel, log.MaxLevel,
	log.RegisterLevel(1, "lowest"), log.RegisterLevel(350, "Notice"), log.RegisterLevel(450, "alert"), log.RegisterLevel(998, "TOP"),
	// distinct levels that share a code (an alias next to a built-in level, a second custom level at
	// the same severity, the zero Level next to NONE): the label is the event's name, not the code's
	log.RegisterLevel(400, "WARNING"), log.RegisterLevel(300, "Information"), log.RegisterLevel(450, "alarm"), {}}

func known(sig string) bool {
	for _, k := range strings.Split(os.Getenv("VERIF_KNOWN"), ",") {
		if k == sig {
			return true
		}
	}
	return false
}

type header struct {
	Level log.Level
	Time  time.Time
	File  string
	Line  int
	Tag   string
	Ctx   string
	W     int
}

func genTime(t *rapid.T) time.Time {
	sec := rapid.Int64Range(-62135596800+86400*2, 253402300799-86400*2).Draw(t, "unix")
	if rapid.Bool().Draw(t, "recent") {
		sec = rapid.Int64Range(0, 4102444800).Draw(t, "unixRecent")
	}
	ns := rapid.Int64Range(0, 999999999).Draw(t, "nanos")
	if rapid.IntRange(0, 3).Draw(t, "msEdge") == 0 {
		ns = rapid.SampledFrom([]int64{0, 999999, 1000000, 999999999, 999000000, 500000}).Draw(t, "nanosEdge")
	}
	off := rapid.IntRange(-14*3600, 14*3600).Draw(t, "zoneOffset")
	return time.Unix(sec, ns).In(time.FixedZone("z", off))
}

func genWidth(t *rapid.T) int {
	if rapid.Bool().Draw(t, "smallW") {
		return rapid.SampledFrom([]int{0, 1, 2, 3, 4, -1, -5, 5}).Draw(t, "wSmall")
	}
	return rapid.IntRange(-5, 200).Draw(t, "w")
}

func genHeader(t *rapid.T) header {
	var h header
	h.Level = rapid.SampledFrom(levels).Draw(t, "level")
	h.Time = genTime(t)
	switch rapid.IntRange(0, 4).Draw(t, "fileK") {
	case 4:
		// a path with multi-byte characters: the width cut is by bytes, wherever it falls
		h.File = rapid.SampledFrom([]string{"/home/张三/项目/", "/srv/données/é/", "C:/Users/Jürgen/", "/😀/"}).Draw(t, "fileU") + rapid.StringMatching(`[a-zé日]{0,30}`).Draw(t, "fileU2") + ".go"
	case 0:
		h.File = ""
	case 1:
		h.File = "/home/u/go/src/app/" + rapid.StringMatching(`[a-z_]{1,12}\.go`).Draw(t, "file")
	case 2:
		h.File = strings.Repeat(rapid.StringMatching(`[a-z]{1,6}/`).Draw(t, "seg"), rapid.IntRange(1, 48).Draw(t, "segs")) + "x.go"
		if len(h.File) > 300 {
			h.File = h.File[len(h.File)-300:]
		}
	default:
		h.File = rapid.StringMatching(`[ -~]{0,60}`).Draw(t, "fileAscii")
	}
	h.Line = rapid.IntRange(0, 99999999).Draw(t, "line")
	h.Tag = rapid.SampledFrom([]string{"_app_def", "aaa", "_com_request_in", "a1_b2_c3_d4"}).Draw(t, "tag")
	if rapid.Bool().Draw(t, "hasCtx") {
		// the property promises nothing about control characters inside a context string
		h.Ctx = rapid.StringMatching(`[ -~]{1,30}`).Draw(t, "ctx")
		if rapid.IntRange(0, 5).Draw(t, "ctxSep") == 0 {
			// context strings that contain or end in the layout's own separator
			h.Ctx = rapid.SampledFrom([]string{"||", "trace_id=1||span_id=2||", "a||", "|", "x||y", "||||"}).Draw(t, "ctxWithSep")
		}
	}
	h.W = genWidth(t)
	return h
}

func (h header) desc() string {
	return fmt.Sprintf("level=%s time=%s file=%q line=%d tag=%q ctx=%q W=%d", h.Level.Name(), h.Time.Format(time.RFC3339Nano), h.File, h.Line, h.Tag, h.Ctx, h.W)
}

// expectedText assembles the expected text line from the JSON line of the same event.
// It returns the acceptable lines (two when a context string is followed by no fields).
func expectedText(jsonLine []byte, h header, fileLine string, exp []vk.EM) ([]string, error) {
	if len(jsonLine) == 0 || jsonLine[len(jsonLine)-1] != '\n' {
		return nil, fmt.Errorf("JSON line lacks the newline: %q", jsonLine)
	}
	raw, err := vk.SplitTopLevel(jsonLine[:len(jsonLine)-1])
	if err != nil {
		return nil, fmt.Errorf("JSON line cannot be split: %v: %q", err, jsonLine)
	}
	nh := 4
	if h.Ctx != "" {
		nh = 5
	}
	if len(raw) != nh+len(exp) {
		return nil, fmt.Errorf("JSON line has %d members, expected %d header + %d fields: %q", len(raw), nh, len(exp), jsonLine)
	}
	var b strings.Builder
	b.WriteString("[" + strings.ToUpper(h.Level.Name()) + "][" + vk.ExpTime(h.Time) + "][" + fileLine + "] " + h.Tag + "||")
	if h.Ctx != "" {
		b.WriteString(h.Ctx + "||")
	}
	var pairs []string
	for i, em := range exp {
		m := raw[nh+i]
		k := m.Key[1 : len(m.Key)-1]
		v := m.Val
		if em.Unquote {
			if len(v) < 2 || v[0] != '"' || v[len(v)-1] != '"' {
				return nil, fmt.Errorf("JSON token of string-like field %q is not a string: %s", em.Key, v)
			}
			v = v[1 : len(v)-1]
		}
		pairs = append(pairs, k+"="+v)
	}
	b.WriteString(strings.Join(pairs, "||"))
	lines := []string{b.String() + "\n"}
	if h.Ctx != "" && len(pairs) == 0 {
		lines = append(lines, strings.TrimSuffix(b.String(), "||")+"\n")
	}
	return lines, nil
}

func checkTextLine(text []byte, want []string) error {
	ok := false
	for _, w := range want {
		if string(text) == w {
			ok = true
		}
	}
	if !ok {
		return fmt.Errorf("text line differs\n got: %q\nwant: %q", text, want[0])
	}
	if n := bytes.Count(text, []byte{'\n'}); n != 1 || text[len(text)-1] != '\n' {
		return fmt.Errorf("text output is not exactly one line: %q", text)
	}
	for i, c := range text[:len(text)-1] {
		if c < 0x20 {
			return fmt.Errorf("raw control byte %#x at offset %d of the text line %q", c, i, text)
		}
	}
	return nil
}

func opts() vk.FieldOpts { return vk.FieldOpts{} }

func record(st *vk.FieldStat, key string, h header, fileLineLen int) {
	vk.Eval()
	nt := st.ContainerAfterScalar > 0 || st.ContainerAfterEmpty > 0 || fileLineLen > h.W
	if nt {
		vk.NonTrivial(key)
	}
	if st.ContainerAfterScalar > 0 {
		vk.Class("container-after-scalar")
	}
	if st.ContainerAfterEmpty > 0 {
		vk.Class("container-after-empty-container")
	}
	if fileLineLen > h.W {
		vk.Class("fileLine-longer-than-W")
	}
	if h.W < 3 {
		vk.Class("W<3")
	}
	if h.W < 3 && fileLineLen > h.W {
		vk.Class("W<3-and-truncation")
	}
	if st.NonFinite > 0 {
		vk.Class("non-finite-float")
	}
	if st.Unmarshallable > 0 {
		vk.Class("unmarshallable")
	}
	if st.Escaping > 0 {
		vk.Class("escaping-needed")
	}
	if h.Ctx != "" {
		vk.Class("with-ctx-string")
	}
	if st.Fields == 0 {
		vk.Class("no-fields")
	}
}

// layout instances are long-lived in a running system: they are kept per width and reused across
// events, so that anything a layout remembers from one event to the next is exercised
var (
	jsonLayouts = map[int]*log.JSONLayout{}
	textLayouts = map[int]*log.TextLayout{}
)

func formatBoth(e *log.Event, w int) (j, x []byte, p any) {
	var alias any
	defer func() {
		if p == nil {
			p = alias
		}
	}()
	p = vk.Catch(func() {
		jl, tl := jsonLayouts[w], textLayouts[w]
		if jl == nil {
			jl = &log.JSONLayout{BaseLayout: log.BaseLayout{FileLineLength: w}}
			tl = &log.TextLayout{BaseLayout: log.BaseLayout{FileLineLength: w}}
			jsonLayouts[w], textLayouts[w] = jl, tl
		}
		// the lines are the caller's once ToBytes has returned (an asynchronous logger queues them):
		// they are held un-copied while the same goroutine formats later events
		rj := jl.ToBytes(e)
		j = bytes.Clone(rj)
		rx := tl.ToBytes(e)
		x = bytes.Clone(rx)
		_ = tl.ToBytes(laterEvent)
		_ = jl.ToBytes(laterEvent)
		if !bytes.Equal(rj, j) {
			alias = fmt.Sprintf("(not a panic) the JSON line handed out by ToBytes changed while later events were formatted (bufferCap=%d, len=%d cap=%d): now %q", log.BufferCap.Load(), len(rj), cap(rj), clipB(rj))
		} else if !bytes.Equal(rx, x) {
			alias = fmt.Sprintf("(not a panic) the text line handed out by ToBytes changed while later events were formatted (bufferCap=%d, len=%d cap=%d): now %q", log.BufferCap.Load(), len(rx), cap(rx), clipB(rx))
		}
	})
	return
}

var laterEvent = &log.Event{Level: log.InfoLevel, Time: time.Date(2026, 5, 6, 7, 8, 9, 0, time.UTC), File: "later.go", Line: 2, Tag: "_later", Fields: []log.Field{log.String("k", "~~~~~~~~~~~~~~~~")}}

func clipB(b []byte) []byte {
	if len(b) > 160 {
		return b[:160]
	}
	return b
}

func property(t *rapid.T) {
	var st vk.FieldStat
	h := genHeader(t)
	if h.W < 3 && known("C08:fileline-width-below-3-panics") {
		vk.Excluded("C08:fileline-width-below-3-panics")
		h.W = 3
	}
	ctx := vk.GenFieldList(t, "ctx", 3, &st, opts())
	fld := vk.GenFieldList(t, "fld", 7, &st, opts())
	// the buffer-reuse cap (property bufferCap) at and around the capacities a line buffer really takes
	bc := rapid.SampledFrom([]int{10240, 10240, 64, 128, 256, 512, 1024, 2048, 4096, 8192, 100, 1000}).Draw(t, "bufferCap")
	log.BufferCap.Store(int32(bc))
	defer log.BufferCap.Store(10240)
	vk.Class(fmt.Sprintf("bufferCap:%d", bc))
	e := &log.Event{Level: h.Level, Time: h.Time, File: h.File, Line: h.Line, Tag: h.Tag, Fields: fld.Fields, CtxString: h.Ctx, CtxFields: ctx.Fields}
	desc := h.desc() + " ctx=[" + strings.Join(ctx.Desc, "; ") + "] fields=[" + strings.Join(fld.Desc, "; ") + "]"
	flLen := len(h.File) + 1 + len(strconv.Itoa(h.Line))
	record(&st, desc, h, flLen)
	if rapid.IntRange(0, 9).Draw(t, "afterOversized") == 0 {
		// an earlier event whose line is larger than the buffer-reuse cap (a stack trace, a dump): what
		// it leaves in the buffer pool must not show up in the next line
		big := &log.Event{Level: log.ErrorLevel, Time: h.Time, File: "big.go", Line: 1, Tag: "_big",
			Fields: []log.Field{log.String("dump", strings.Repeat(rapid.SampledFrom([]string{"Z", "stack\n\tframe ", "é"}).Draw(t, "bigUnit"), rapid.IntRange(11000, 40000).Draw(t, "bigLen")))}}
		_, _, _ = formatBoth(big, h.W)
		vk.Class("after-oversized-line")
	}
	if rapid.IntRange(0, 3).Draw(t, "otherAppenderFirst") == 0 {
		// the same event went to another appender of its logger first, whose layout has another
		// width (a console at 20, a file at 200): each layout clips for itself
		w2 := rapid.SampledFrom([]int{20, 200, 3, 48, 0}).Draw(t, "otherWidth")
		if w2 != h.W && !(w2 < 3 && known("C08:fileline-width-below-3-panics")) {
			_, _, _ = formatBoth(e, w2)
			vk.Class("same-event-through-another-width-first")
		}
	}
	jl, tl, p := formatBoth(e, h.W)
	if p != nil {
		t.Fatalf("VERIF-VIOLATION C08: formatting panicked with width %d: %v\nevent: %s", h.W, p, desc)
	}
	exp := append(append([]vk.EM{}, ctx.Exp...), fld.Exp...)
	want, err := expectedText(jl, h, vk.ExpFileLine(h.File, h.Line, h.W), exp)
	if err != nil {
		t.Fatalf("VERIF-VIOLATION C08: %v\nevent: %s", err, desc)
	}
	if len(desc) < 300 {
		vk.Sample(map[string]any{"event": desc, "text": string(tl), "json": string(jl)})
	}
	if err := checkTextLine(tl, want); err != nil {
		t.Fatalf("VERIF-VIOLATION C08: %v\njson: %q\nevent: %s", err, jl, desc)
	}
	// a follow-up event through the same layout instances: the same instant's second seen from
	// another zone (or the neighbouring millisecond / second), everything else unchanged
	if rapid.Bool().Draw(t, "followUp") {
		h2 := h
		shift := rapid.SampledFrom([]time.Duration{0, time.Millisecond, 999 * time.Millisecond, time.Second, -time.Second}).Draw(t, "shift")
		off := rapid.SampledFrom([]int{0, 3600, -3600, 19800, -34200, 50400, -50400}).Draw(t, "zone2")
		h2.Time = h.Time.Truncate(time.Second).Add(shift).In(time.FixedZone("z2", off))
		if y := h2.Time.Year(); y < 1 || y > 9999 {
			return
		}
		e2 := &log.Event{Level: h2.Level, Time: h2.Time, File: h2.File, Line: h2.Line, Tag: h2.Tag, Fields: fld.Fields, CtxString: h2.Ctx, CtxFields: ctx.Fields}
		jl2, tl2, p2 := formatBoth(e2, h2.W)
		vk.Class("follow-up-event-same-layout")
		if p2 != nil {
			t.Fatalf("VERIF-VIOLATION C08: formatting the follow-up event panicked: %v\nevent: %s", p2, h2.desc())
		}
		want2, err := expectedText(jl2, h2, vk.ExpFileLine(h2.File, h2.Line, h2.W), exp)
		if err != nil {
			t.Fatalf("VERIF-VIOLATION C08: %v\nfollow-up event: %s", err, h2.desc())
		}
		if err := checkTextLine(tl2, want2); err != nil {
			t.Fatalf("VERIF-VIOLATION C08: follow-up event through the same layout: %v\nfirst event: %s\nfollow-up:  %s", err, h.desc(), h2.desc())
		}
	}
}

func TestC08_Direct(t *testing.T) {
	vk.Rule(rule)
	rapid.Check(t, property)
}

// ---------------------------------------------------------------- end to end with a configured width

type ctxKey struct{}

type e2eCtx struct {
	t  time.Time
	s  string
	fs []log.Field
}

var (
	e2eTag  = log.RegisterTag("_c08_e2e")
	console = &vk.Capture{}
)

func TestC08_EndToEnd(t *testing.T) {
	vk.Rule(rule)
	log.Stdout = console
	log.TimeNow = func(ctx context.Context) time.Time { return ctx.Value(ctxKey{}).(*e2eCtx).t }
	log.StringFromContext = func(ctx context.Context) string { return ctx.Value(ctxKey{}).(*e2eCtx).s }
	log.FieldsFromContext = func(ctx context.Context) []log.Field { return ctx.Value(ctxKey{}).(*e2eCtx).fs }
	defer func() { log.TimeNow, log.StringFromContext, log.FieldsFromContext = nil, nil, nil }()
	rapid.Check(t, func(t *rapid.T) {
		var st vk.FieldStat
		h := genHeader(t)
		if h.W < 3 && known("C08:fileline-width-below-3-panics") {
			h.W = 3
		}
		if h.Level.Code() >= 998 {
			h.Level = log.ErrorLevel
		}
		h.Tag = "_c08_e2e"
		ctx := vk.GenFieldList(t, "ctx", 2, &st, opts())
		fld := vk.GenFieldList(t, "fld", 5, &st, opts())
		log.Destroy()
		err := log.Refresh(map[string]string{
			"enableCaller": "true", "fastCaller": "false", "bufferCap": "10KB",
			"appender.con.type":                  "Console",
			"appender.con.layout.type":           "TextLayout",
			"appender.con.layout.fileLineLength": strconv.Itoa(h.W),
			"logger.root.type":                   "Logger",
			"logger.root.level":                  "NONE~TOP",
			"logger.root.appenderRef.ref":        "con",
		})
		if err != nil {
			t.Fatalf("VERIF-VIOLATION C08 end-to-end: width %d rejected by Refresh: %v", h.W, err)
		}
		defer log.Destroy()
		fs := ctx.Fields
		if len(fs) >= 1 && rapid.Bool().Draw(t, "sharedBacking") {
			// the hook hands out prefixes of one slice (a child scope extends its parent's fields):
			// an earlier event got arr[:k], this event gets all of arr - and must find it untouched
			arr := make([]log.Field, len(fs))
			copy(arr, fs)
			k := rapid.IntRange(0, len(fs)-1).Draw(t, "prefix")
			pre := vk.GenFieldList(t, "prefld", 3, &st, opts())
			if len(pre.Fields) == 0 {
				pre.Fields = []log.Field{log.String("earlier", "event")}
			}
			_ = vk.Catch(func() {
				log.Record(context.WithValue(context.Background(), ctxKey{}, &e2eCtx{t: h.Time, s: h.Ctx, fs: arr[:k]}), h.Level, e2eTag, 1, pre.Fields...)
			})
			fs = arr
			vk.Class("ctx-fields-share-backing-array-with-earlier-event")
		}
		c := context.WithValue(context.Background(), ctxKey{}, &e2eCtx{t: h.Time, s: h.Ctx, fs: fs})
		console.Reset()
		_, file, ln, _ := runtime.Caller(0)
		p := vk.Catch(func() { log.Record(c, h.Level, e2eTag, 1, fld.Fields...) })
		h.File, h.Line = file, ln+1
		desc := "e2e " + h.desc() + " ctx=[" + strings.Join(ctx.Desc, "; ") + "] fields=[" + strings.Join(fld.Desc, "; ") + "]"
		record(&st, desc, h, len(file)+1+len(strconv.Itoa(h.Line)))
		vk.Class("end-to-end")
		if p != nil {
			t.Fatalf("VERIF-VIOLATION C08 end-to-end: log call panicked with configured width %d: %v", h.W, p)
		}
		text := console.Bytes()
		// reference JSON tokens from a wide JSON layout; the header is computed independently
		e := &log.Event{Level: h.Level, Time: h.Time, File: h.File, Line: h.Line, Tag: h.Tag, Fields: fld.Fields, CtxString: h.Ctx, CtxFields: ctx.Fields}
		jl := bytes.Clone((&log.JSONLayout{BaseLayout: log.BaseLayout{FileLineLength: 100000}}).ToBytes(e))
		exp := append(append([]vk.EM{}, ctx.Exp...), fld.Exp...)
		want, err := expectedText(jl, h, vk.ExpFileLine(h.File, h.Line, h.W), exp)
		if err != nil {
			t.Fatalf("VERIF-VIOLATION C08 end-to-end: %v", err)
		}
		if err := checkTextLine(text, want); err != nil {
			t.Fatalf("VERIF-VIOLATION C08 end-to-end: %v\nevent: %s", err, desc)
		}
	})
}

func FuzzC08(f *testing.F) {
	f.Fuzz(rapid.MakeFuzz(property))
}

// TestRegress_C08: shrunk failure found before the fix: commit (width below 3 panicked).
func TestRegress_C08(t *testing.T) {
	for _, w := range []int{0, 1, 2, -1, -5} {
		e := &log.Event{Level: log.NoneLevel, Time: time.Unix(0, 0).UTC(), Tag: "_app_def", File: "f.go", Line: 7}
		_, tl, p := formatBoth(e, w)
		vk.Eval()
		if p != nil {
			t.Fatalf("VERIF-VIOLATION C08 regress: width %d panics: %v", w, p)
		}
		if want := "[NONE][1970-01-01T00:00:00.000][...] _app_def||\n"; string(tl) != want {
			t.Fatalf("VERIF-VIOLATION C08 regress: width %d gives %q, want %q", w, tl, want)
		}
	}
}

// F21: the text encoder counted nesting in an int8; from 127 levels up nested members were written as
// top-level key=value pairs.
func TestRegress_C08_Tower(t *testing.T) {
	for _, d := range []int{126, 127, 128, 129, 300} {
		f := log.Object("leaf", log.Int("x", 1))
		for i := 0; i < d; i++ {
			f = log.Object("n", f, log.Int("s", i))
		}
		e := &log.Event{Level: log.InfoLevel, Time: time.Unix(0, 0).UTC(), Tag: "_app_def", File: "f.go", Line: 7, Fields: []log.Field{f, log.Int("after", 7)}}
		jl, tl, p := formatBoth(e, 48)
		vk.Eval()
		if p != nil {
			t.Fatalf("VERIF-VIOLATION C08 regress: %d nested objects make a layout panic: %v", d, p)
		}
		js, ts := string(jl), string(tl)
		ji, ti := strings.Index(js, `"n":`), strings.Index(ts, "n=")
		je, te := strings.LastIndex(js, `,"after"`), strings.LastIndex(ts, "||after")
		if ji < 0 || ti < 0 || je < 0 || te < 0 || js[ji+4:je] != ts[ti+2:te] {
			t.Fatalf("VERIF-VIOLATION C08 regress: a tower of %d nested objects: the text layout's value is not the JSON layout's token (text line %d bytes, JSON line %d bytes)", d, len(ts), len(js))
		}
	}
}
