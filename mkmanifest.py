#!/usr/bin/env python3
"""Regenerates MANIFEST.json from props.py (claimed checks) - every property in properties.jsonl
that has no entry in PROPS is listed under not_applicable with the reason given in NOT_CLAIMED."""
import json, os, sys
ROOT = os.path.dirname(os.path.abspath(__file__))
sys.path.insert(0, ROOT)
from props import PROPS, NOT_CLAIMED, HOOK_COMMITS

ids = [json.loads(l)["id"] for l in open(os.path.join(ROOT, "properties.jsonl")) if l.strip()]
checks = []
for pid in ids:
    if pid not in PROPS:
        continue
    c = PROPS[pid]
    checks.append(dict(
        property_id=pid,
        quick_cmd=f"./check {pid} quick",
        thorough_cmd=f"./check {pid} thorough",
        evidence_file=f"/verif/evidence/{pid}.json",
        replay_cmd_template=f"./check {pid} replay {{path}}",
        engine="harness",
        level_claimed=dict(category=c.get("level", "exploration"), text=c["level_text"], design_ref=f"DESIGN.md section 4, {pid}"),
        level_note=c["level_note"],
        technique=c["technique"],
    ))
na = [dict(property_id=p, reason=NOT_CLAIMED.get(p, "check not built yet in this round (work in progress); see DESIGN.md section 4 for the plan")) for p in ids if p not in PROPS]
m = dict(
    version=1,
    setup_cmd="./check build",
    hooks=dict(guard="verif", enable="go test -tags verif (the harness always builds /repo with -tags verif)",
               baseline_off_cmd="cd /repo && GOFLAGS=-mod=mod GOPROXY=off go test -vet=off -count=1 ./...",
               source_commits=HOOK_COMMITS, add_only=True),
    engines=[dict(name="harness", path="/verif/harness", serves_properties=[c["property_id"] for c in checks],
                  kind_free_text="Go module of property-based tests (pgregory.net/rapid v1.3.0 generators and state machines, bounded-exhaustive enumerators, native go fuzz targets) compiled against /repo's working tree by ./check; driver ./check (python3) shards, merges statistics and writes evidence")],
    checks=checks,
    notes="Every check is generated-input search against an explicit oracle (reference model, independent decoder, differential or metamorphic relation, history invariant). ./check <ID> quick|thorough|replay <file>. Exit 0 held / 1 VIOLATION / 2 inconclusive. known_findings.json lists recorded and fixed defects.",
    not_applicable=na,
)
json.dump(m, open(os.path.join(ROOT, "MANIFEST.json"), "w"), indent=1)
print("claimed", len(checks), "not claimed", len(na))
