// C12 - raw Write reaches every appender of the named logger verbatim.
//
// Handles h1..h4 are requested once, before the first Refresh. Each case configures the loggers
// behind them (kind, 1-3 references with arbitrary level settings), runs a write script through
// one handle (payload shapes, a caller recycling one buffer while the async worker is parked in a
// gated appender, 1-8 concurrent writers) and compares what every appender received.
package c12

import (
	"bytes"
	"fmt"
	"io"
	"os"
	"os/exec"
	"path/filepath"
	"sort"
	"strconv"
	"strings"
	"sync"
	"testing"
	"time"

	"github.com/go-spring/log"
	"pgregory.net/rapid"

	"verifharness/vk"
)

const rule = "logger kind (sync, async Block/Discard, Console/File/RollingFile logger) x 1-3 appender references with arbitrary level settings x write scripts (empty, 1 byte, binary, multi-line, up to 1 MiB; one recycled caller buffer with the async worker parked; 1-8 concurrent writers); non-trivial = script with buffer reuse or >=2 writers on a logger with >=2 references or a restrictive reference level; distinct by (config, script shape)"

var handleNames = []string{"h1", "h2", "h3", "h4"}

// allNames adds a handle for the reserved name: the configured root logger is a named logger too
// (it lists no tags). Only TestC12_Write configures it; everywhere else the built-in root stands in.
var allNames = append(append([]string{}, handleNames...), log.RootLoggerName)

var handles = func() map[string]*log.LoggerWrapper {
	m := map[string]*log.LoggerWrapper{}
	for _, n := range allNames {
		m[n] = log.GetLogger(n)
	}
	return m
}()

var tags = func() []*log.Tag {
	var t []*log.Tag
	for _, n := range handleNames {
		t = append(t, log.RegisterTag("_c12_"+n))
	}
	return t
}()

func init() {
	log.RegisterTimeRotation("1s", log.TimeRotation{Interval: time.Second})
}

type lcfg struct {
	Kind     string   // sync | asyncBlock | asyncDiscard | console | file | rolling
	Levels   []string // per reference (sync/async)
	Layout   string
	Separate bool
	Async    bool
}

type cfg struct {
	L   map[string]lcfg
	Dir string
}

var refLevels = []string{"", "", "INFO", "ERROR", "FATAL", "INFO~WARN", "TRACE~DEBUG", "MAX", "none", "WARN~WARN", "ERROR~INFO"}

func genLogger(t *rapid.T, label string, under bool) lcfg {
	var l lcfg
	kinds := []string{"sync", "sync", "asyncBlock", "asyncBlock", "asyncDiscard", "console", "file", "rolling"}
	if !under {
		kinds = []string{"sync", "asyncBlock", "sync"}
	}
	l.Kind = rapid.SampledFrom(kinds).Draw(t, label+"kind")
	switch l.Kind {
	case "sync", "asyncBlock", "asyncDiscard":
		n := rapid.IntRange(1, 3).Draw(t, label+"nrefs")
		for i := 0; i < n; i++ {
			l.Levels = append(l.Levels, rapid.SampledFrom(refLevels).Draw(t, label+"lvl"))
		}
		l.Layout = rapid.SampledFrom([]string{"", "", "TextLayout"}).Draw(t, label+"layout")
	case "rolling":
		l.Separate = rapid.Bool().Draw(t, label+"separate")
		l.Async = rapid.Bool().Draw(t, label+"async")
		l.Layout = rapid.SampledFrom([]string{"", "JSONLayout"}).Draw(t, label+"layout")
	}
	return l
}

func (c cfg) toMap(skip string) map[string]string {
	m := map[string]string{"enableCaller": "false", "bufferCap": "10KB", "appender.unused.type": "Discard"}
	for _, name := range allNames {
		if name == skip {
			continue
		}
		l, ok := c.L[name]
		if !ok {
			continue
		}
		p := "logger." + name + "."
		if name != log.RootLoggerName {
			m[p+"tags"] = "_c12_" + name
		}
		if l.Layout != "" {
			m[p+"layout.type"] = l.Layout
		}
		m[p+"level"] = rapidLevelFor(name)
		switch l.Kind {
		case "sync", "asyncBlock", "asyncDiscard":
			m[p+"type"] = "Logger"
			if l.Kind != "sync" {
				m[p+"type"] = "AsyncLogger"
				m[p+"bufferSize"] = "10000"
				m[p+"bufferFullPolicy"] = map[string]string{"asyncBlock": "Block", "asyncDiscard": "Discard"}[l.Kind]
			}
			for i, lv := range l.Levels {
				an := fmt.Sprintf("%sa%d", name, i)
				m["appender."+an+".type"] = "Rec"
				k := fmt.Sprintf("%sappenderRef[%d]", p, i)
				m[k+".ref"] = an
				m[k+".level"] = lv
			}
		case "console":
			m[p+"type"] = "Console"
		case "file":
			m[p+"type"] = "File"
			m[p+"fileDir"] = c.Dir
			m[p+"fileName"] = name + ".log"
		case "rolling":
			m[p+"type"] = "RollingFile"
			m[p+"fileDir"] = c.Dir
			m[p+"fileName"] = name + ".roll"
			m[p+"rotation"] = "h"
			m[p+"separate"] = strconv.FormatBool(l.Separate)
			m[p+"async"] = strconv.FormatBool(l.Async)
			m[p+"bufferFullPolicy"] = "Block"
			m[p+"bufferSize"] = "10000"
		}
	}
	return m
}

// logger levels vary with the name so that "raw writes are not level filtered" also covers the logger's own range
func rapidLevelFor(name string) string {
	return map[string]string{"h1": "", "h2": "ERROR", "h3": "INFO~WARN", "h4": "warn"}[name]
}

func (c cfg) desc() string {
	var parts []string
	for _, n := range allNames {
		l, ok := c.L[n]
		if !ok {
			continue
		}
		parts = append(parts, fmt.Sprintf("%s{%s refs=%q layout=%q sep=%v async=%v}", n, l.Kind, l.Levels, l.Layout, l.Separate, l.Async))
	}
	return strings.Join(parts, " ")
}

// ---------------------------------------------------------------- scripts

type script struct {
	Under    string   // handle under test
	Mode     string   // plain | reuse | concurrent
	Payloads [][]byte // plain/reuse: in order
	Writers  int      // concurrent
	PerW     int
	Gate     bool // park the worker in the first appender during the script (async only)
}

func genPayload(t *rapid.T) []byte {
	switch rapid.IntRange(0, 8).Draw(t, "pk") {
	case 8:
		return nil // io.Writer callers may pass a nil slice: an empty write like any other
	case 0:
		return []byte{}
	case 1:
		return []byte{rapid.Byte().Draw(t, "one")}
	case 2:
		return rapid.SliceOfN(rapid.Byte(), 1, 64).Draw(t, "bin")
	case 3:
		return []byte("line one\nline two\n\nline four\n")
	case 4:
		return []byte(rapid.StringMatching(`[ -~]{1,80}\n`).Draw(t, "text"))
	case 5:
		return []byte{0, '\n', 0xff, 0, '\n'}
	case 6:
		n := rapid.IntRange(10_000, 1<<20).Draw(t, "bigN")
		b := make([]byte, n)
		seed := rapid.Byte().Draw(t, "bigSeed")
		for i := range b {
			b[i] = seed + byte(i*7)
		}
		return b
	default:
		return []byte(rapid.String().Draw(t, "unicode"))
	}
}

func genScript(t *rapid.T) script {
	var s script
	s.Under = rapid.SampledFrom(allNames).Draw(t, "under")
	s.Mode = rapid.SampledFrom([]string{"plain", "reuse", "reuse", "concurrent"}).Draw(t, "mode")
	s.Gate = rapid.Bool().Draw(t, "gate")
	switch s.Mode {
	case "plain", "reuse":
		n := rapid.IntRange(1, 8).Draw(t, "npayloads")
		for i := 0; i < n; i++ {
			s.Payloads = append(s.Payloads, genPayload(t))
		}
	default:
		s.Writers = rapid.IntRange(1, 8).Draw(t, "writers")
		s.PerW = rapid.IntRange(1, 30).Draw(t, "perWriter")
	}
	return s
}

// ---------------------------------------------------------------- run

var console = &vk.Capture{}

func clip(b []byte) string {
	if len(b) > 48 {
		return fmt.Sprintf("%q...(%d bytes)", b[:48], len(b))
	}
	return fmt.Sprintf("%q", b)
}

func sinkBytes(c cfg, name string, l lcfg) map[string][]byte {
	out := map[string][]byte{}
	switch l.Kind {
	case "console":
		out["console stream"] = console.Bytes()
	case "file":
		b, _ := os.ReadFile(filepath.Join(c.Dir, name+".log"))
		out["file "+name+".log"] = b
	case "rolling":
		ents, _ := os.ReadDir(c.Dir)
		var nb, wb []byte
		var names []string
		for _, e := range ents {
			names = append(names, e.Name())
		}
		sort.Strings(names)
		for _, n := range names {
			b, _ := os.ReadFile(filepath.Join(c.Dir, n))
			if strings.HasPrefix(n, name+".roll.wf.") {
				wb = append(wb, b...)
			} else if strings.HasPrefix(n, name+".roll.") {
				nb = append(nb, b...)
			}
		}
		out["rolling file "+name+".roll.*"] = nb
		if l.Separate {
			out["rolling file "+name+".roll.wf.*"] = wb
		}
	}
	return out
}

func runCase(c cfg, s script) error {
	log.Destroy()
	vk.ResetRecs()
	console.Reset()
	log.Stdout = console
	var err error
	if p := vk.Catch(func() { err = log.Refresh(c.toMap("")) }); p != nil || err != nil {
		log.Destroy()
		return fmt.Errorf("Refresh failed on a valid configuration: panic=%v err=%v", p, err)
	}
	under := c.L[s.Under]
	h := handles[s.Under]
	isAsync := under.Kind == "asyncBlock" || under.Kind == "asyncDiscard"
	var gate *vk.Behavior
	if s.Gate && isAsync {
		gate = vk.NewGate()
		vk.SetBehavior(s.Under+"a0", gate)
	}
	var expected [][]byte           // plain/reuse: exact sequence
	perWriter := map[int][][]byte{} // concurrent
	checkRet := func(n int, err error, want int) error {
		if n != want || err != nil {
			return fmt.Errorf("Write of %d bytes returned (%d, %v), expected (%d, nil)", want, n, err, want)
		}
		return nil
	}
	var failure error
	var werr error
	done, pan := vk.Within(60*time.Second, func() {
		switch s.Mode {
		case "plain":
			for _, p := range s.Payloads {
				expected = append(expected, bytes.Clone(p))
				n, e := h.Write(p)
				if werr == nil {
					werr = checkRet(n, e, len(p))
				}
			}
		case "reuse":
			// one caller-owned buffer recycled across writes
			maxLen := 0
			for _, p := range s.Payloads {
				maxLen = max(maxLen, len(p))
			}
			buf := make([]byte, maxLen)
			for _, p := range s.Payloads {
				copy(buf, p)
				expected = append(expected, bytes.Clone(p))
				n, e := h.Write(buf[:len(p)])
				if werr == nil {
					werr = checkRet(n, e, len(p))
				}
				// the caller is free to scribble over its buffer as soon as Write has returned
				for i := range buf {
					buf[i] = '#'
				}
			}
		case "concurrent":
			var wg sync.WaitGroup
			var mu sync.Mutex
			for w := 0; w < s.Writers; w++ {
				var mine [][]byte
				for i := 0; i < s.PerW; i++ {
					mine = append(mine, []byte(fmt.Sprintf("w%d:%d:%s\n", w, i, strings.Repeat("x", (w*31+i*7)%200))))
				}
				perWriter[w] = mine
				wg.Add(1)
				go func() {
					defer wg.Done()
					buf := make([]byte, 0, 256)
					for _, p := range mine {
						buf = append(buf[:0], p...)
						var n int
						var e error
						if w%2 == 1 {
							// text through the handle the way io.WriteString / io.MultiWriter / fmt.Fprint do it
							// (a StringWriter if the handle is one, else Write)
							n, e = io.WriteString(h, string(buf))
						} else {
							n, e = h.Write(buf)
						}
						if err := checkRet(n, e, len(p)); err != nil {
							mu.Lock()
							if werr == nil {
								werr = err
							}
							mu.Unlock()
						}
					}
				}()
			}
			wg.Wait()
		}
		if gate != nil {
			// open the gate for good
			for i := 0; i < 1<<16; i++ {
				gate.Release <- struct{}{}
			}
		}
		log.Destroy()
	})
	if pan != nil {
		log.Destroy()
		return fmt.Errorf("writing through the handle panicked: %v", pan)
	}
	if !done {
		vk.HardFail("c12-hang", map[string]any{"config": c.desc(), "script": s.Mode}, "C12: writes + Destroy did not return within 60 s; config: %s", c.desc())
	}
	if werr != nil {
		return werr
	}

	// expected flat order-insensitive pieces for concurrent mode
	checkSeq := func(where string, got [][]byte) error {
		if s.Mode != "concurrent" {
			if len(got) != len(expected) {
				return fmt.Errorf("%s received %d raw writes, expected %d", where, len(got), len(expected))
			}
			for i := range expected {
				if !bytes.Equal(got[i], expected[i]) {
					return fmt.Errorf("%s: raw write #%d arrived as %s, the caller wrote %s", where, i, clip(got[i]), clip(expected[i]))
				}
			}
			return nil
		}
		next := map[int]int{}
		for _, g := range got {
			var w, i int
			if _, err := fmt.Sscanf(string(g), "w%d:%d:", &w, &i); err != nil {
				return fmt.Errorf("%s received bytes no writer wrote: %s", where, clip(g))
			}
			if w < 0 || w >= s.Writers || next[w] >= len(perWriter[w]) || !bytes.Equal(g, perWriter[w][next[w]]) {
				return fmt.Errorf("%s: writer %d's writes arrived out of order, duplicated or altered (got %s as its item #%d)", where, w, clip(g), next[w])
			}
			next[w]++
		}
		for w := 0; w < s.Writers; w++ {
			if next[w] != len(perWriter[w]) {
				return fmt.Errorf("%s received %d of writer %d's %d writes", where, next[w], w, len(perWriter[w]))
			}
		}
		return nil
	}

	switch under.Kind {
	case "sync", "asyncBlock", "asyncDiscard":
		for i := range under.Levels {
			an := fmt.Sprintf("%sa%d", s.Under, i)
			r := vk.Rec(an)
			if r == nil {
				return fmt.Errorf("appender %s never started", an)
			}
			var got [][]byte
			for _, it := range r.Items() {
				if !it.Raw {
					return fmt.Errorf("appender %s received an event, only raw writes were issued", an)
				}
				got = append(got, it.Bytes)
			}
			if err := checkSeq(fmt.Sprintf("appender %s (reference level %q)", an, under.Levels[i]), got); err != nil {
				return err
			}
		}
	default:
		var flat []byte
		if s.Mode != "concurrent" {
			for _, p := range expected {
				flat = append(flat, p...)
			}
		}
		for where, b := range sinkBytes(c, s.Under, under) {
			if s.Mode != "concurrent" {
				if !bytes.Equal(b, flat) {
					return fmt.Errorf("%s holds %s, the handle was given %s", where, clip(b), clip(flat))
				}
				continue
			}
			var lines [][]byte
			for _, ln := range bytes.SplitAfter(b, []byte("\n")) {
				if len(ln) > 0 {
					lines = append(lines, ln)
				}
			}
			if err := checkSeq(where, lines); err != nil {
				return err
			}
		}
	}
	// appenders of other loggers receive nothing
	for name, r := range vk.AllRecs() {
		if strings.HasPrefix(name, s.Under+"a") {
			continue
		}
		if n := r.Len(); n != 0 {
			return fmt.Errorf("appender %s of another logger received %d items", name, n)
		}
	}
	if under.Kind != "console" && console.Len() != 0 {
		return fmt.Errorf("console stream received %s although the written handle is not a console logger", clip(console.Bytes()))
	}
	return failure
}

func TestC12_Write(t *testing.T) {
	vk.Rule(rule)
	base := vk.Scratch("c12")
	n := 0
	// a handle obtained twice for one name is the same handle (registration is only legal while unconfigured)
	log.Destroy()
	for _, name := range allNames {
		if log.GetLogger(name) != handles[name] {
			t.Fatalf("VERIF-VIOLATION C12: GetLogger(%q) returned a different handle the second time", name)
		}
	}
	rapid.Check(t, func(t *rapid.T) {
		n++
		c := cfg{L: map[string]lcfg{}, Dir: filepath.Join(base, strconv.Itoa(n))}
		_ = os.MkdirAll(c.Dir, 0o755)
		defer os.RemoveAll(c.Dir)
		s := genScript(t)
		for _, name := range allNames {
			c.L[name] = genLogger(t, name, name == s.Under)
		}
		if vk.Known("C12:raw-write-dropped-by-level-filter") {
			vk.Excluded("C12:raw-write-dropped-by-level-filter")
			t.Skip("known finding: every raw write through Logger/AsyncLogger is dropped")
		}
		vk.Eval()
		under := c.L[s.Under]
		vk.Class("kind:" + under.Kind)
		vk.Class("mode:" + s.Mode)
		restrictive := false
		for _, lv := range under.Levels {
			if lv != "" {
				restrictive = true
			}
		}
		if (s.Mode == "reuse" || s.Mode == "concurrent" && s.Writers >= 2) && (len(under.Levels) >= 2 || restrictive) {
			vk.NonTrivial(c.desc() + fmt.Sprintf("%s/%d/%d/%d/%v", s.Mode, len(s.Payloads), s.Writers, s.PerW, s.Gate))
		}
		if s.Gate && (under.Kind == "asyncBlock" || under.Kind == "asyncDiscard") && s.Mode == "reuse" {
			vk.Class("reuse-with-parked-worker")
		}
		vk.Sample(map[string]any{"config": c.desc(), "under": s.Under, "mode": s.Mode, "payloads": len(s.Payloads), "writers": s.Writers})
		if err := runCase(c, s); err != nil {
			t.Fatalf("VERIF-VIOLATION C12: %v\nhandle %s mode %s gate=%v\nconfig: %s", err, s.Under, s.Mode, s.Gate, c.desc())
		}
	})
	log.Destroy()
}

// TestC12_MissingName: Refresh fails if a requested name is not configured.
func TestC12_MissingName(t *testing.T) {
	vk.Rule(rule)
	base := vk.Scratch("c12m")
	rapid.Check(t, func(t *rapid.T) {
		log.Destroy()
		vk.ResetRecs()
		c := cfg{L: map[string]lcfg{}, Dir: base}
		for _, name := range handleNames {
			c.L[name] = genLogger(t, name, false)
		}
		skip := rapid.SampledFrom(handleNames).Draw(t, "omit")
		var err error
		p := vk.Catch(func() { err = log.Refresh(c.toMap(skip)) })
		log.Destroy()
		vk.Eval()
		vk.Class("missing-name")
		vk.NonTrivial("missing:" + skip + c.desc())
		if p != nil {
			t.Fatalf("VERIF-VIOLATION C12: Refresh panicked when handle %s is not configured: %v", skip, p)
		}
		if err == nil {
			t.Fatalf("VERIF-VIOLATION C12: Refresh succeeded although the requested logger name %s is not configured\nconfig: %s", skip, c.desc())
		}
	})
}

// TestC12_StrangeName: handle names can only be requested before the first Refresh and live for the
// whole process, so each generated name gets a process of its own (the test binary re-executed):
// the child requests one more handle whose name is NOT a configured logger - but looks like
// something in the configuration (a key below a configured logger, an appender's name, another
// spelling of a logger's name) - and refreshes a configuration that serves h1..h4. Refresh must fail.
func TestC12_StrangeName(t *testing.T) {
	if name, ok := os.LookupEnv("VERIF_C12_EXTRA"); ok {
		extra := log.GetLogger(name)
		m := map[string]string{"appender.sink.type": "Rec", "appender.h1.type": "Rec"}
		for i, n := range handleNames {
			m["logger."+n+".type"] = "Logger"
			m["logger."+n+".tags"] = "_c12_" + n
			m["logger."+n+".appenderRef.ref"] = []string{"sink", "h1"}[i%2]
			m["logger."+n+".level"] = "info"
		}
		err := log.Refresh(m)
		if err == nil {
			_, _ = extra.Write([]byte("x\n"))
			fmt.Println("C12-CHILD-REFRESH-ACCEPTED")
			os.Exit(3)
		}
		fmt.Println("C12-CHILD-REFRESH-REJECTED", strings.SplitN(err.Error(), "\n", 2)[0])
		os.Exit(0)
	}
	vk.Rule(rule)
	// names every run tries, in this order (the generated ones come on top)
	must := []string{"_c12_h1", "h1.type", "h1.appenderRef.ref", "H1", "sink", "h1.", "_c12_*", "h1.tags", "appender.sink", "logger.h1", "h1 ", "h_1", "h1.appenderRef[0]", "Rec", "h5"}
	round := 0
	rapid.Check(t, func(t *rapid.T) {
		for _, name := range []string{must[round%len(must)], ""} {
			round++
			strangeName(t, name)
		}
	})
}

func strangeName(t *rapid.T, name string) {
	{
		if name == "" {
			name = rapid.OneOf(
				rapid.SampledFrom([]string{"_c12_h1", "h1.type", "_c12_h2", "h1.tags", "h1.level", "h1.appenderRef", "h1.appenderRef.ref", "h2.appender-ref", "H1", "h1 ", " h1", "h_1", "sink", "appender.sink", "logger.h1", "logger", "h1.", ".h1", "h1.appenderRef[0]", "h5", "root", "", "_c12_h1", "_c12_h2", "_c12_h3", "_c12_*", "Rec", "Logger"}),
				rapid.StringMatching(`h[1-4]\.[a-zA-Z]{1,12}`),
				rapid.StringMatching(`[a-z]{1,6}`),
			).Draw(t, "name")
		}
		if name == "root" || name == "" {
			name = "rootx"
		}
		for _, n := range handleNames {
			if name == n {
				name = n + ".type"
			}
		}
		cmd := exec.Command(os.Args[0], "-test.run=^TestC12_StrangeName$")
		cmd.Env = append(os.Environ(), "VERIF_C12_EXTRA="+name, "VERIF_STATS=")
		out, err := cmd.CombinedOutput()
		vk.Eval()
		vk.Class("strange-name")
		if strings.Contains(name, ".") {
			vk.NonTrivial("strange:" + name)
		}
		switch {
		case strings.Contains(string(out), "C12-CHILD-REFRESH-REJECTED"):
		case strings.Contains(string(out), "C12-CHILD-REFRESH-ACCEPTED"):
			t.Fatalf("VERIF-VIOLATION C12: Refresh succeeded although the requested logger name %q is not a configured logger (configured: h1..h4)", name)
		default:
			t.Fatalf("VERIF-INCONCLUSIVE C12: child for name %q ended unexpectedly: %v: %.300s", name, err, out)
		}
	}
}

var longDrainDone bool

// TestC12_Restart: a logger value used directly may be stopped and started again; in every life raw
// writes reach the appender verbatim, once, in order, and are all there when Stop returns.
func TestC12_Restart(t *testing.T) {
	vk.Rule(rule)
	rapid.Check(t, func(t *rapid.T) {
		vk.ResetRecs()
		async := rapid.Bool().Draw(t, "async")
		lives := rapid.IntRange(2, 4).Draw(t, "lives")
		delayUS := rapid.SampledFrom([]int{0, 50, 500}).Draw(t, "appenderDelayUS")
		// once per run: a backlog that takes several seconds to drain (90 writes at 40 ms each) - Stop
		// waits for all of it, however long that is
		longDrain := !longDrainDone
		if longDrain {
			longDrainDone, async, lives, delayUS = true, true, 1, 40000
		}
		rec := &vk.RecAppender{AppenderBase: log.AppenderBase{Name: "rr"}}
		_ = rec.Start()
		if delayUS > 0 {
			vk.SetBehavior("rr", &vk.Behavior{Delay: func(int) time.Duration { return time.Duration(delayUS) * time.Microsecond }})
		}
		all := log.LevelRange{MinLevel: log.NoneLevel, MaxLevel: log.MaxLevel}
		refs := log.AppenderRefs{AppenderRefs: []*log.AppenderRef{{Appender: rec, Level: all}}}
		var l log.Logger
		if async {
			l = &log.AsyncLogger{LoggerBase: log.LoggerBase{Name: "ra", Level: all}, AppenderRefs: refs, BufferSize: 100, BufferFullPolicy: log.BufferFullPolicyBlock}
		} else {
			l = &log.SyncLogger{LoggerBase: log.LoggerBase{Name: "rs", Level: all}, AppenderRefs: refs}
		}
		vk.Eval()
		vk.Class("restart")
		vk.NonTrivial(fmt.Sprintf("restart/%v/%d/%d", async, lives, delayUS))
		for life := 0; life < lives; life++ {
			if err := l.Start(); err != nil {
				t.Fatalf("VERIF-VIOLATION C12: Start #%d of the same logger value failed: %v", life+1, err)
			}
			n := rapid.IntRange(0, 40).Draw(t, "writes")
			if longDrain {
				n = 90
			}
			var want [][]byte
			for i := 0; i < n; i++ {
				b := []byte(fmt.Sprintf("life%d-%d|%s\n", life, i, strings.Repeat("z", (i*37)%300)))
				want = append(want, b)
				l.Write(b)
			}
			if done, p := vk.Within(60*time.Second, l.Stop); !done || p != nil {
				vk.HardFail("c12-hang", map[string]any{"life": life}, "C12: Stop #%d of a restarted logger did not return (panic=%v)", life+1, p)
			}
			var got [][]byte
			for _, it := range rec.Items() {
				got = append(got, it.Bytes)
			}
			if len(got) != len(want) {
				t.Fatalf("VERIF-VIOLATION C12: life %d of a restarted logger (async=%v): %d raw writes were issued, the appender holds %d when Stop returns", life+1, async, len(want), len(got))
			}
			for i := range want {
				if !bytes.Equal(got[i], want[i]) {
					t.Fatalf("VERIF-VIOLATION C12: life %d of a restarted logger: write #%d arrived as %.60q, written %.60q", life+1, i, got[i], want[i])
				}
			}
			rec.Clear()
		}
	})
}

// TestRegress_C12: shrunk failures found before the fix: commits.
func TestRegress_C12(t *testing.T) {
	base := vk.Scratch("c12r")
	one := lcfg{Kind: "sync", Levels: []string{""}}
	cases := []struct {
		c cfg
		s script
	}{
		// a raw write through a sync logger with one reference reached nothing
		{cfg{L: map[string]lcfg{"h1": one, "h2": one, "h3": one, "h4": one}}, script{Under: "h1", Mode: "plain", Payloads: [][]byte{[]byte("x")}}},
		// restrictive reference levels must not filter raw writes
		{cfg{L: map[string]lcfg{"h1": one, "h2": {Kind: "sync", Levels: []string{"ERROR", "INFO~WARN", "MAX"}}, "h3": one, "h4": one}}, script{Under: "h2", Mode: "plain", Payloads: [][]byte{[]byte("a\n"), {}, []byte("b")}}},
		// async logger: the caller recycles its buffer while the worker is parked
		{cfg{L: map[string]lcfg{"h1": {Kind: "asyncBlock", Levels: []string{"", ""}}, "h2": one, "h3": one, "h4": one}}, script{Under: "h1", Mode: "reuse", Gate: true, Payloads: [][]byte{{0}, []byte("second"), []byte("3")}}},
	}
	for i, k := range cases {
		k.c.Dir = filepath.Join(base, strconv.Itoa(i))
		_ = os.MkdirAll(k.c.Dir, 0o755)
		vk.Eval()
		if err := runCase(k.c, k.s); err != nil {
			t.Fatalf("VERIF-VIOLATION C12 regress %d: %v\nconfig: %s", i, err, k.c.desc())
		}
	}
	log.Destroy()
}

// ---------------------------------------------------------------- overflow with a recycled buffer

// TestC12_OverflowReuse: the caller recycles ONE buffer while the asynchronous buffer is full
// (small buffer, slow or parked appender). Whatever the overflow policy does with an item, every
// item that is delivered must carry the bytes that were in the caller's buffer at call time, in
// call order; with Block every item must be delivered.
func TestC12_OverflowReuse(t *testing.T) {
	vk.Rule(rule)
	rapid.Check(t, func(t *rapid.T) {
		policy := rapid.SampledFrom([]string{"Block", "DiscardOldest", "Discard"}).Draw(t, "policy")
		n := rapid.IntRange(120, 600).Draw(t, "writes")
		slow := rapid.SampledFrom([]int{20, 100, 400}).Draw(t, "delayUS")
		parked := policy != "Block" && rapid.Bool().Draw(t, "parked")
		viaHandle := rapid.Bool().Draw(t, "viaHandle")
		log.Destroy()
		vk.ResetRecs()
		console.Reset()
		log.Stdout = console
		var gate *vk.Behavior
		if parked {
			gate = vk.NewGate()
			vk.SetBehavior("h1a0", gate)
		} else {
			vk.SetBehavior("h1a0", &vk.Behavior{Delay: func(int) time.Duration { return time.Duration(slow) * time.Microsecond }})
		}
		m := map[string]string{"enableCaller": "false", "appender.unused.type": "Discard"}
		for _, name := range handleNames {
			m["appender."+name+"a0.type"] = "Rec"
			m["logger."+name+".type"] = "Logger"
			m["logger."+name+".tags"] = "_c12_" + name
			m["logger."+name+".appenderRef.ref"] = name + "a0"
		}
		m["logger.h1.type"] = "AsyncLogger"
		m["logger.h1.bufferSize"] = "100"
		m["logger.h1.bufferFullPolicy"] = policy
		if err := log.Refresh(m); err != nil {
			t.Fatalf("VERIF-INCONCLUSIVE C12: %v", err)
		}
		mk := func(i int) []byte {
			return []byte(fmt.Sprintf("ov%05d:%s\n", i, strings.Repeat(string(rune('a'+i%26)), 5+i%40)))
		}
		buf := make([]byte, 0, 64)
		done, p := vk.Within(120*time.Second, func() {
			for i := 0; i < n; i++ {
				buf = append(buf[:0], mk(i)...)
				if viaHandle {
					_, _ = handles["h1"].Write(buf)
				} else {
					_, _ = handles["h1"].Write(buf[:len(buf):len(buf)])
				}
				for j := range buf {
					buf[j] = '#'
				}
			}
			if gate != nil {
				close(gate.Release)
			}
			log.Destroy()
		})
		if p != nil {
			t.Fatalf("VERIF-VIOLATION C12: writing panicked: %v", p)
		}
		if !done {
			vk.HardFail("c12-hang", map[string]any{"policy": policy, "writes": n}, "C12: %d writes with policy %s + Destroy did not finish", n, policy)
		}
		vk.Eval()
		vk.Class("overflow-reuse:" + policy)
		vk.NonTrivial(fmt.Sprintf("overflow/%s/%d/%d/%v", policy, n, slow, parked))
		items := vk.Rec("h1a0").Items()
		last := -1
		for k, it := range items {
			var seq int
			if _, err := fmt.Sscanf(string(it.Bytes), "ov%05d:", &seq); err != nil || !bytes.Equal(it.Bytes, mk(seq)) {
				t.Fatalf("VERIF-VIOLATION C12: delivery #%d holds %s: not the bytes any call wrote (the caller recycled its buffer after Write returned; policy %s, %d writes, buffer 100)", k, clip(it.Bytes), policy, n)
			}
			if seq <= last {
				t.Fatalf("VERIF-VIOLATION C12: write #%d delivered after write #%d (policy %s)", seq, last, policy)
			}
			last = seq
		}
		if policy == "Block" && len(items) != n {
			t.Fatalf("VERIF-VIOLATION C12: Block policy delivered %d of %d raw writes", len(items), n)
		}
	})
	log.Destroy()
}
