package vk

import (
	"bytes"
	"regexp"
	"strconv"
	"sync"
	"time"
	"unsafe"

	"github.com/go-spring/log"
)

// Item is what a recording appender saw: either an event (copied at Append time because
// events are pooled) or a raw write (bytes copied at Write time).
type Item struct {
	Raw       bool
	Bytes     []byte // raw write payload, or nil
	ID        int64  // event id recovered from the first field / the formatted line; -1 if none
	Level     int32
	LevelName string
	Tag       string
	File      string
	Line      int
	Time      time.Time
	CtxString string
	CtxJSON   string // context fields rendered by the JSON encoder
	FldJSON   string // call fields rendered by the JSON encoder
	At        time.Time
}

// Behavior lets a test own the schedule of one recording appender.
type Behavior struct {
	Entered chan struct{} // signalled (non-blocking, large buffer) when Append/Write is entered
	Release chan struct{} // if non-nil, Append/Write waits for one token before recording
	Done    chan struct{} // signalled after the item was recorded
	Delay   func(n int) time.Duration
}

// NewGate returns a behaviour that parks every delivery until a token is released.
func NewGate() *Behavior {
	return &Behavior{
		Entered: make(chan struct{}, 1<<20),
		Release: make(chan struct{}, 1<<20),
		Done:    make(chan struct{}, 1<<20),
	}
}

// RecAppender is the harness's recording appender plugin (type "Rec").
type RecAppender struct {
	log.AppenderBase
	mu      sync.Mutex
	items   []Item
	n       int
	started int
	stopped int
}

var (
	recMu     sync.RWMutex
	recLive   = map[string]*RecAppender{}
	behaviors = map[string]*Behavior{}
)

func init() {
	log.RegisterPlugin[RecAppender]("Rec", log.PluginTypeAppender)
}

// SetBehavior installs (or with nil removes) the schedule control for the appender called name.
func SetBehavior(name string, b *Behavior) {
	recMu.Lock()
	if b == nil {
		delete(behaviors, name)
	} else {
		behaviors[name] = b
	}
	recMu.Unlock()
}

// ResetRecs forgets all live recorders and behaviours (between cases).
func ResetRecs() {
	recMu.Lock()
	recLive = map[string]*RecAppender{}
	behaviors = map[string]*Behavior{}
	recMu.Unlock()
}

// Rec returns the most recently started recorder with the given appender name.
func Rec(name string) *RecAppender {
	recMu.RLock()
	defer recMu.RUnlock()
	return recLive[name]
}

// AllRecs returns a snapshot of the live recorders.
func AllRecs() map[string]*RecAppender {
	recMu.RLock()
	defer recMu.RUnlock()
	m := make(map[string]*RecAppender, len(recLive))
	for k, v := range recLive {
		m[k] = v
	}
	return m
}

func (a *RecAppender) Start() error {
	recMu.Lock()
	recLive[a.Name] = a
	recMu.Unlock()
	a.mu.Lock()
	a.started++
	a.mu.Unlock()
	return nil
}

func (a *RecAppender) Stop() {
	a.mu.Lock()
	a.stopped++
	a.mu.Unlock()
}

func (a *RecAppender) behavior() *Behavior {
	recMu.RLock()
	b := behaviors[a.Name]
	recMu.RUnlock()
	return b
}

func (a *RecAppender) deliver(it Item) {
	b := a.behavior()
	if b != nil {
		if b.Entered != nil {
			select {
			case b.Entered <- struct{}{}:
			default:
			}
		}
		if b.Release != nil {
			<-b.Release
		}
		if b.Delay != nil {
			a.mu.Lock()
			n := a.n
			a.mu.Unlock()
			if d := b.Delay(n); d > 0 {
				time.Sleep(d)
			}
		}
	}
	it.At = time.Now()
	a.mu.Lock()
	a.items = append(a.items, it)
	a.n++
	a.mu.Unlock()
	if b != nil && b.Done != nil {
		select {
		case b.Done <- struct{}{}:
		default:
		}
	}
}

// Append copies everything of interest out of the (pooled) event.
func (a *RecAppender) Append(e *log.Event) {
	a.deliver(CopyEvent(e))
}

// Write copies the raw bytes.
func (a *RecAppender) Write(b []byte) {
	it := Item{Raw: true, Bytes: bytes.Clone(b), ID: IDFromLine(b)}
	if it.Bytes == nil {
		it.Bytes = []byte{}
	}
	a.deliver(it)
}

// Items returns a copy of what was recorded so far.
func (a *RecAppender) Items() []Item {
	a.mu.Lock()
	defer a.mu.Unlock()
	return append([]Item(nil), a.items...)
}

// Len returns the number of recorded items.
func (a *RecAppender) Len() int { a.mu.Lock(); defer a.mu.Unlock(); return len(a.items) }

// Clear drops recorded items.
func (a *RecAppender) Clear() { a.mu.Lock(); a.items = nil; a.mu.Unlock() }

// Lifecycle returns (started, stopped) counts.
func (a *RecAppender) Lifecycle() (int, int) {
	a.mu.Lock()
	defer a.mu.Unlock()
	return a.started, a.stopped
}

// CopyEvent snapshots an event.
func CopyEvent(e *log.Event) Item {
	it := Item{
		ID:        -1,
		Level:     e.Level.Code(),
		LevelName: e.Level.Name(),
		Tag:       e.Tag,
		File:      e.File,
		Line:      e.Line,
		Time:      e.Time,
		CtxString: e.CtxString,
	}
	it.CtxJSON = RenderFields(e.CtxFields)
	it.FldJSON = RenderFields(e.Fields)
	it.ID = IDFromFields(e.Fields)
	return it
}

// RenderFields renders a field list with the library's JSON encoder as one object.
func RenderFields(fs []log.Field) string {
	var buf bytes.Buffer
	enc := log.NewJSONEncoder(&buf)
	enc.AppendEncoderBegin()
	log.EncodeFields(enc, fs)
	enc.AppendEncoderEnd()
	return buf.String()
}

var idRe = regexp.MustCompile(`\bid"?[=:](\d+)`)

// IDFromLine recovers "id=N" / "id":N / msg=id=N from a formatted line.
func IDFromLine(b []byte) int64 {
	m := idRe.FindSubmatch(b)
	if m == nil {
		return -1
	}
	n, err := strconv.ParseInt(string(m[1]), 10, 64)
	if err != nil {
		return -1
	}
	return n
}

// IDFromFields recovers the id from Int("id", n) or Msgf("id=%d", n) as first field.
func IDFromFields(fs []log.Field) int64 {
	for _, f := range fs {
		switch {
		case f.Key == "id" && f.Type == log.ValueTypeInt64:
			return int64(f.Num)
		case f.Key == log.MsgKey && f.Type == log.ValueTypeString:
			p, _ := f.Any.(*byte)
			if p == nil {
				continue
			}
			s := unsafe.String(p, int(f.Num))
			if id := IDFromLine([]byte(s)); id >= 0 {
				return id
			}
		}
	}
	return -1
}

// Capture is a concurrency-safe io.Writer that stores what it is given.
type Capture struct {
	mu     sync.Mutex
	buf    bytes.Buffer
	writes int
}

func (c *Capture) Write(p []byte) (int, error) {
	c.mu.Lock()
	c.buf.Write(p)
	c.writes++
	c.mu.Unlock()
	return len(p), nil
}
func (c *Capture) String() string { c.mu.Lock(); defer c.mu.Unlock(); return c.buf.String() }
func (c *Capture) Bytes() []byte {
	c.mu.Lock()
	defer c.mu.Unlock()
	return bytes.Clone(c.buf.Bytes())
}
func (c *Capture) Reset()      { c.mu.Lock(); c.buf.Reset(); c.writes = 0; c.mu.Unlock() }
func (c *Capture) Len() int    { c.mu.Lock(); defer c.mu.Unlock(); return c.buf.Len() }
func (c *Capture) Writes() int { c.mu.Lock(); defer c.mu.Unlock(); return c.writes }

// ResetRecsKeepLive clears recorded items but keeps the live recorders registered.
func ResetRecsKeepLive() {
	recMu.RLock()
	defer recMu.RUnlock()
	for _, r := range recLive {
		r.Clear()
	}
}
